(* C17, part 4: ReadAt on a chunk list, CompactFileChunks, doMaybeManifestize. *)
From Coq Require Import List NArith Bool Arith Lia Permutation Sorted.
From Coq Require Import ZifyBool ZifyN ZifyNat.
From SW Require Import model.Chunks proof.ChunksProofs proof.ChunksOverlay proof.ChunksRead.
Import ListNotations.
Local Open Scope N_scope.

(* ================================================================== *)
(* ReadAt over the views of a chunk list = overlay                     *)
(* ================================================================== *)
Lemma total_size_ge_acc : forall l acc,
  acc <= fold_left (fun a c => if a <? c_stop c then c_stop c else a) l acc /\
  forall c, In c l -> c_stop c <= fold_left (fun a c => if a <? c_stop c then c_stop c else a) l acc.
Proof.
  induction l as [|x l IH]; intros acc; simpl.
  - split; [lia|intros c []].
  - destruct (IH (if acc <? c_stop x then c_stop x else acc)) as [H1 H2]. split.
    + destruct (acc <? c_stop x) eqn:E; lia.
    + intros c [Hc|Hc]; subst; auto. destruct (acc <? c_stop c) eqn:E; lia.
Qed.

Lemma total_size_ge : forall l c, In c l -> c_stop c <= total_size l.
Proof. intros l c H. apply (total_size_ge_acc l 0). auto. Qed.

Theorem read_at_chunks : forall src fuel ms chunks d m fs buf off,
  resolve fuel ms 0 max_int64 chunks = Some (d, m) -> NoDup (map key d) ->
  (forall c, In c d -> N.of_nat (length (src (c_fid c))) = c_size c) ->
  (forall c, In c d -> c_stop c <= fs) -> fs <= max_int64 ->
  let r := read_at src (view_from_chunks fuel ms chunks 0 max_int64) fs buf off in
  let len := N.of_nat (length buf) in
  rr_n r = N.min len (fs - off) /\
  length (rr_buf r) = length buf /\
  rr_eof r = (fs <=? off + len) /\
  forall i, (i < length buf)%nat ->
    nth i (rr_buf r) 0 = if N.of_nat i <? rr_n r then overlay src d (off + N.of_nat i) else nth i buf 0.
Proof.
  intros src fuel ms chunks d m fs buf off Hres Hn Hlen Hfs Hmax.
  unfold view_from_chunks. change (0 + max_int64) with max_int64.
  set (vs := fst (non_overlapping_visible_intervals fuel ms chunks 0 max_int64)).
  assert (Hvok : vis_ok vs) by (eapply non_overlapping_ok; eauto).
  assert (Hsrc : forall p, src_of_visibles vs p = overlay_src d p)
    by (eapply non_overlapping_overlay; eauto).
  set (V := view_from_visibles vs 0 max_int64).
  assert (HV : views_ok V) by (apply views_ok_of; auto).
  assert (HVsrc : forall p, p < max_int64 -> src_of_views V p = overlay_src d p).
  { intros p Hp. unfold V. rewrite views_src; auto. rewrite Hsrc.
    replace ((0 <=? p) && (p <? 0 + max_int64)) with true by lia. reflexivity. }
  (* every view lies inside one chunk: take its last byte *)
  assert (Hview : forall w, In w V ->
            cv_end w <= fs /\ cv_off w + cv_size w <= N.of_nat (length (src (cv_fid w)))).
  { intros w Hw. destruct HV as [HVs HVf]. rewrite Forall_forall in HVf. pose proof (HVf w Hw) as Hne.
    assert (Hbound : cv_end w <= max_int64).
    { unfold V, view_from_visibles in Hw. apply in_flat_map in Hw. destruct Hw as [v [_ Hw]].
      apply view_of_in in Hw. lia. }
    set (q := cv_end w - 1).
    assert (Hcov : cvcovers w q = true) by (unfold cvcovers, q, cv_end in *; lia).
    pose proof (views_find_unique V w q (conj HVs (proj2 (Forall_forall _ _) HVf)) Hw Hcov) as Hf.
    assert (Hqm : q < max_int64) by (unfold q; lia).
    pose proof (HVsrc q Hqm) as Hq. unfold src_of_views in Hq. rewrite Hf in Hq.
    unfold overlay_src in Hq. destruct (winner d q) as [c|] eqn:Ewin; [|discriminate].
    apply winner_in in Ewin. destruct Ewin as [Ic Cc].
    inversion Hq as [[E1 E2]]. rewrite E1. rewrite (Hlen c Ic). specialize (Hfs c Ic).
    unfold covers, c_stop, q, cv_end in *. lia. }
  pose proof (read_at_views src V fs buf off HV) as R.
  assert (R1 : Forall (fun w => cv_end w <= fs) V) by (apply Forall_forall; intros w Hw; apply Hview; auto).
  assert (R2 : Forall (fun w => cv_off w + cv_size w <= N.of_nat (length (src (cv_fid w)))) V)
    by (apply Forall_forall; intros w Hw; apply Hview; auto).
  specialize (R R1 R2). cbv zeta in R. destruct R as [Rn [Rl [Re Rb]]].
  cbv zeta. repeat split; auto.
  intros i Hi. rewrite (Rb i Hi).
  destruct (N.of_nat i <? rr_n (read_at src V fs buf off)) eqn:E; auto.
  unfold spec, overlay. rewrite HVsrc; auto. lia.
Qed.

(* ================================================================== *)
(* CompactFileChunks                                                   *)
(* ================================================================== *)
Theorem compact_same : forall f ms chunks,
  Forall (fun c => c_manifest c = false) chunks ->
  Forall (fun c => c_stop c <= max_int64) chunks ->
  NoDup (map key chunks) ->
  Permutation (fst (compact_file_chunks (S f) ms chunks) ++ snd (compact_file_chunks (S f) ms chunks)) chunks /\
  forall p, overlay_src (fst (compact_file_chunks (S f) ms chunks)) p = overlay_src chunks p.
Proof.
  intros f ms chunks Hd Hmax Hn. unfold compact_file_chunks. rewrite partition_filter. simpl.
  split; [apply filter_perm_partition|].
  intros p. unfold overlay_src. rewrite winner_filter_keep; auto.
  intros w Hw. destruct (winner_in _ _ _ Hw) as [Iw Cw].
  rewrite Forall_forall in Hmax. specialize (Hmax w Iw).
  assert (Hp : p < max_int64) by (unfold covers in Cw; lia).
  pose proof (non_overlapping_overlay_data f ms chunks 0 max_int64 p Hd Hn (N.le_0_l p) Hp) as Hs.
  unfold overlay_src in Hs. rewrite Hw in Hs. unfold src_of_visibles in Hs.
  destruct (visible_at (fst (non_overlapping_visible_intervals (S f) ms chunks 0 max_int64)) p) as [v|] eqn:Ev;
    [|discriminate].
  inversion Hs as [[E1 E2]]. apply visible_at_some in Ev. destruct Ev as [Iv _].
  apply existsb_exists. exists v. split; auto. rewrite E1. apply N.eqb_refl.
Qed.

(* ================================================================== *)
(* resolution: algebra                                                 *)
(* ================================================================== *)
Lemma join_unit_l : forall b, join_resolved (Some ([], [])) b = b.
Proof. intros [[d m]|]; reflexivity. Qed.

Lemma join_assoc : forall a b c,
  join_resolved a (join_resolved b c) = join_resolved (join_resolved a b) c.
Proof.
  intros [[d1 m1]|] [[d2 m2]|] [[d3 m3]|]; simpl; auto. rewrite !app_assoc. reflexivity.
Qed.

Lemma resolve_app : forall f ms s e a b,
  resolve (S f) ms s e (a ++ b) = join_resolved (resolve (S f) ms s e a) (resolve (S f) ms s e b).
Proof.
  intros f ms s e a b. induction a as [|c a IH].
  - rewrite resolve_nil, join_unit_l. reflexivity.
  - simpl app. rewrite !resolve_cons, IH, join_assoc. reflexivity.
Qed.

Lemma resolve_mono_store : forall fuel ms ms' s e,
  (forall k v, ms_lookup ms k = Some v -> ms_lookup ms' k = Some v) ->
  forall cs r, resolve fuel ms s e cs = Some r -> resolve fuel ms' s e cs = Some r.
Proof.
  intros fuel ms ms' s e Hext. induction fuel as [|f IHf]; intros cs r H; [discriminate|].
  revert r H. induction cs as [|c cs IHc]; intros [d m] H; [exact H|].
  rewrite resolve_cons in *. apply join_some in H.
  destruct H as [d1 [m1 [d2 [m2 [H1 [H2 [Ed Em]]]]]]]. subst d m.
  rewrite (IHc _ H2).
  assert (H1' : resolve_one f ms' s e c = Some (d1, m1)).
  { unfold resolve_one in *. destruct (outside_window s e c); auto.
    destruct (negb (c_manifest c)); auto.
    destruct (ms_lookup ms (c_fid c)) as [sub|] eqn:El; [|discriminate].
    rewrite (Hext _ _ El).
    destruct (resolve f ms s e sub) as [[d' m']|] eqn:Er; [|discriminate].
    rewrite (IHf _ _ Er). exact H1. }
  rewrite H1'. reflexivity.
Qed.

Lemma resolve_mono_fuel : forall fuel ms s e cs r,
  resolve fuel ms s e cs = Some r -> resolve (S fuel) ms s e cs = Some r.
Proof.
  induction fuel as [|f IHf]; intros ms s e cs r H; [discriminate|].
  revert r H. induction cs as [|c cs IHc]; intros [d m] H; [exact H|].
  rewrite resolve_cons in H. rewrite resolve_cons. apply join_some in H.
  destruct H as [d1 [m1 [d2 [m2 [H1 [H2 [Ed Em]]]]]]]. subst d m.
  rewrite (IHc _ H2).
  assert (H1' : resolve_one (S f) ms s e c = Some (d1, m1)).
  { unfold resolve_one in *. destruct (outside_window s e c); auto.
    destruct (negb (c_manifest c)); auto.
    destruct (ms_lookup ms (c_fid c)) as [sub|] eqn:El; [|discriminate].
    destruct (resolve f ms s e sub) as [[d' m']|] eqn:Er; [|discriminate].
    rewrite (IHf _ _ _ _ _ Er). exact H1. }
  rewrite H1'. reflexivity.
Qed.

Lemma resolve_perm : forall f ms s e cs cs', Permutation cs cs' ->
  forall d m, resolve (S f) ms s e cs = Some (d, m) ->
  exists d' m', resolve (S f) ms s e cs' = Some (d', m') /\ Permutation d d'.
Proof.
  intros f ms s e cs cs' P. induction P as [|x l l' P IH|x y l|l l' l'' P1 IH1 P2 IH2]; intros d m H.
  - exists d, m. auto.
  - rewrite resolve_cons in H. apply join_some in H.
    destruct H as [d1 [m1 [d2 [m2 [H1 [H2 [Ed Em]]]]]]]. subst d m.
    destruct (IH _ _ H2) as [d2' [m2' [H2' Pd]]].
    exists (d1 ++ d2'), (m1 ++ m2'). rewrite resolve_cons, H1, H2'. split; auto.
    apply Permutation_app_head. auto.
  - rewrite !resolve_cons in H. apply join_some in H.
    destruct H as [d1 [m1 [d2 [m2 [H1 [H2 [Ed Em]]]]]]]. subst d m.
    apply join_some in H2. destruct H2 as [d3 [m3 [d4 [m4 [H3 [H4 [Ed Em]]]]]]]. subst d2 m2.
    exists (d3 ++ d1 ++ d4), (m3 ++ m1 ++ m4). rewrite !resolve_cons, H1, H3, H4. split; auto.
    apply Permutation_app_swap_app.
  - destruct (IH1 _ _ H) as [d1 [m1 [H1 Pd1]]]. destruct (IH2 _ _ H1) as [d2 [m2 [H2 Pd2]]].
    exists d2, m2. split; auto. eapply perm_trans; eauto.
Qed.

(* ================================================================== *)
(* mergeIntoManifest: the manifest chunk spans its children            *)
(* ================================================================== *)
Lemma fold_min_le : forall b init,
  fold_left (fun a c => if c_off c <? a then c_off c else a) b init <= init /\
  forall c, In c b -> fold_left (fun a c => if c_off c <? a then c_off c else a) b init <= c_off c.
Proof.
  induction b as [|x b IH]; intros init; simpl.
  - split; [lia|intros c []].
  - destruct (IH (if c_off x <? init then c_off x else init)) as [H1 H2]. split.
    + destruct (c_off x <? init) eqn:E; lia.
    + intros c [Hc|Hc]; subst; auto. destruct (c_off c <? init) eqn:E; lia.
Qed.

Lemma hull_outside : forall fid mt b s e c, In c b ->
  outside_window s e (manifest_chunk_of fid mt b) = true -> outside_window s e c = true.
Proof.
  intros fid mt b s e c Hc H. unfold manifest_chunk_of, outside_window in *. unfold c_stop in *.
  cbn [c_off c_size] in H.
  pose proof (proj2 (fold_min_le b max_int64) c Hc) as Hmin.
  pose proof (proj2 (total_size_ge_acc b 0) c Hc) as Hmax. unfold c_stop in Hmax.
  lia.
Qed.

(* ================================================================== *)
(* doMaybeManifestize                                                  *)
(* ================================================================== *)
Lemma batches_concat : forall fuel k ds bs rest, batches fuel k ds = (bs, rest) -> ds = concat bs ++ rest.
Proof.
  induction fuel as [|f IH]; intros k ds bs rest H; simpl in H.
  - inversion H; subst. reflexivity.
  - destruct (Nat.leb k (length ds)).
    + destruct (batches f k (skipn k ds)) as [bs' r'] eqn:E. inversion H; subst.
      simpl. rewrite <- app_assoc. rewrite <- (IH _ _ _ _ E). symmetry. apply firstn_skipn.
    + inversion H; subst. reflexivity.
Qed.

Lemma save_batches_fst : forall next mt b r,
  fst (save_batches next mt (b :: r)) = manifest_chunk_of next mt b :: fst (save_batches (next + 1) mt r).
Proof. intros. simpl. destruct (save_batches (next + 1) mt r). reflexivity. Qed.

Lemma save_batches_snd : forall next mt b r,
  snd (save_batches next mt (b :: r)) = (next, b) :: snd (save_batches (next + 1) mt r).
Proof. intros. simpl. destruct (save_batches (next + 1) mt r). reflexivity. Qed.

Lemma saved_keys : forall bs next mt kv, In kv (snd (save_batches next mt bs)) -> next <= fst kv.
Proof.
  induction bs as [|b r IH]; intros next mt kv H.
  - destruct H.
  - rewrite save_batches_snd in H. destruct H as [H|H]; [subst; simpl; lia|].
    apply IH in H. lia.
Qed.

Lemma lookup_saved : forall bs next mt ms i b, nth_error bs i = Some b ->
  ms_lookup (snd (save_batches next mt bs) ++ ms) (next + N.of_nat i) = Some b.
Proof.
  induction bs as [|b0 r IH]; intros next mt ms i b H.
  - destruct i; discriminate.
  - rewrite save_batches_snd. simpl. destruct i as [|j]; simpl in H.
    + inversion H; subst. replace (next =? next + N.of_nat 0) with true by lia. reflexivity.
    + replace (next =? next + N.of_nat (S j)) with false by lia.
      replace (next + N.of_nat (S j)) with (next + 1 + N.of_nat j) by lia. apply IH. auto.
Qed.

Lemma lookup_app_skip : forall st ms j, (forall kv, In kv st -> fst kv <> j) ->
  ms_lookup (st ++ ms) j = ms_lookup ms j.
Proof.
  induction st as [|[k v] st IH]; intros ms j H; simpl; auto.
  pose proof (H (k, v) (or_introl eq_refl)) as Hk. simpl in Hk.
  replace (k =? j) with false by lia. apply IH. intros kv Hkv. apply H. right. auto.
Qed.

Lemma filter_in_window_outside : forall s e b,
  (forall c, In c b -> outside_window s e c = true) -> filter (in_window s e) b = [].
Proof.
  intros s e b. induction b as [|c b IH]; intros H; simpl; auto.
  unfold in_window at 1. rewrite (H c (or_introl eq_refl)). simpl. apply IH. intros c' Hc'. apply H. right. auto.
Qed.

Lemma resolve_saved : forall bs next mt f ms' s e,
  (forall i b, nth_error bs i = Some b -> ms_lookup ms' (next + N.of_nat i) = Some b) ->
  Forall (Forall (fun c => c_manifest c = false)) bs ->
  exists mm, resolve (S (S f)) ms' s e (fst (save_batches next mt bs)) =
             Some (filter (in_window s e) (concat bs), mm).
Proof.
  induction bs as [|b r IH]; intros next mt f ms' s e Hl Hd.
  - exists []. reflexivity.
  - inversion Hd as [|? ? Hb Hr]; subst.
    destruct (IH (next + 1) mt f ms' s e) as [mm Hmm]; auto.
    { intros i b' Hi. replace (next + 1 + N.of_nat i) with (next + N.of_nat (S i)) by lia. apply Hl. exact Hi. }
    rewrite save_batches_fst, resolve_cons, Hmm. simpl concat. rewrite filter_app.
    unfold resolve_one.
    destruct (outside_window s e (manifest_chunk_of next mt b)) eqn:Eo.
    + rewrite (filter_in_window_outside s e b); [|intros c Hc; eapply hull_outside; eauto].
      exists mm. reflexivity.
    + simpl c_manifest. simpl negb. simpl c_fid.
      pose proof (Hl 0%nat b eq_refl) as H0. replace (next + N.of_nat 0) with next in H0 by lia.
      rewrite H0. rewrite (resolve_data_only f ms' s e b Hb).
      eexists. reflexivity.
Qed.

Theorem manifestize_same : forall k next mt chunks fuel ms s e d m,
  resolve fuel ms s e chunks = Some (d, m) ->
  (forall j v, ms_lookup ms j = Some v -> j < next) ->
  exists d' m',
    resolve (S fuel) (snd (maybe_manifestize k next mt chunks) ++ ms) s e
            (fst (maybe_manifestize k next mt chunks)) = Some (d', m') /\
    Permutation d d'.
Proof.
  intros k next mt chunks fuel ms s e d m Hres Hfresh.
  destruct (resolve_fuel_pos _ _ _ _ _ _ Hres) as [f Ef]. subst fuel.
  unfold maybe_manifestize.
  set (ds := filter (fun c => negb (c_manifest c)) chunks).
  set (mcs := filter c_manifest chunks).
  destruct (batches (length ds) k ds) as [bs rest] eqn:Eb.
  destruct (save_batches next mt bs) as [newm st] eqn:Es. simpl fst. simpl snd.
  assert (Enewm : newm = fst (save_batches next mt bs)) by (rewrite Es; reflexivity).
  assert (Est : st = snd (save_batches next mt bs)) by (rewrite Es; reflexivity).
  pose proof (batches_concat _ _ _ _ _ Eb) as Hds.
  assert (Hdata : Forall (fun c => c_manifest c = false) ds).
  { apply Forall_forall. intros c Hc. unfold ds in Hc. apply filter_In in Hc.
    destruct Hc as [_ Hc]. destruct (c_manifest c); [discriminate|reflexivity]. }
  assert (Hdata' : Forall (fun c => c_manifest c = false) (concat bs) /\
                   Forall (fun c => c_manifest c = false) rest).
  { rewrite Hds in Hdata. apply Forall_app in Hdata. exact Hdata. }
  destruct Hdata' as [Hdbs Hdrest].
  (* the original list, manifests first *)
  assert (P1 : Permutation chunks (mcs ++ ds)) by (apply Permutation_sym, filter_perm_partition).
  destruct (resolve_perm f ms s e _ _ P1 _ _ Hres) as [d2 [m2 [H2 Pd]]].
  rewrite resolve_app in H2. apply join_some in H2.
  destruct H2 as [dm [mm [dd [md [Hm [Hd [Ed Em]]]]]]]. subst d2 m2.
  rewrite (resolve_data_only f ms s e ds Hdata) in Hd. inversion Hd; subst dd md. clear Hd.
  (* the new list *)
  assert (Hext : forall j v, ms_lookup ms j = Some v -> ms_lookup (st ++ ms) j = Some v).
  { intros j v Hj. rewrite lookup_app_skip; auto. intros kv Hkv. rewrite Est in Hkv.
    apply saved_keys in Hkv. specialize (Hfresh _ _ Hj). lia. }
  pose proof (resolve_mono_fuel _ _ _ _ _ _ (resolve_mono_store _ _ _ s e Hext _ _ Hm)) as Hm'.
  destruct (resolve_saved bs next mt f (st ++ ms) s e) as [mn Hn].
  { intros i b Hi. rewrite Est. apply lookup_saved. exact Hi. }
  { apply Forall_forall. intros b Hb. apply Forall_forall. intros c Hc.
    rewrite Forall_forall in Hdbs. apply Hdbs. apply in_concat. exists b. auto. }
  rewrite <- Enewm in Hn.
  rewrite !resolve_app, Hm', Hn, (resolve_data_only (S f) (st ++ ms) s e rest Hdrest). simpl.
  eexists. eexists. split; [reflexivity|].
  rewrite <- filter_app, <- Hds. exact Pd.
Qed.

(* ... hence the visible intervals of the manifestized list show the same overlay *)
Theorem manifestize_overlay : forall k next mt chunks fuel ms s e d m,
  resolve fuel ms s e chunks = Some (d, m) ->
  (forall j v, ms_lookup ms j = Some v -> j < next) ->
  NoDup (map key d) ->
  forall p,
    src_of_visibles
      (fst (non_overlapping_visible_intervals (S fuel) (snd (maybe_manifestize k next mt chunks) ++ ms)
              (fst (maybe_manifestize k next mt chunks)) s e)) p = overlay_src d p.
Proof.
  intros k next mt chunks fuel ms s e d m Hres Hfresh Hn p.
  destruct (manifestize_same k next mt chunks fuel ms s e d m Hres Hfresh) as [d' [m' [H P]]].
  rewrite (non_overlapping_overlay _ _ _ _ _ d' m' H).
  - unfold overlay_src. rewrite (winner_perm d d' p P Hn). reflexivity.
  - eapply Permutation_NoDup; [apply Permutation_map; exact P|exact Hn].
Qed.

(* the overlay only depends on the multiset of chunks *)
Theorem overlay_perm : forall d d' p, Permutation d d' -> NoDup (map key d) -> overlay_src d p = overlay_src d' p.
Proof. intros d d' p P Hn. unfold overlay_src. rewrite (winner_perm d d' p P Hn). reflexivity. Qed.

