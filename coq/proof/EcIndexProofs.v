(* Proofs about model/EcIndex.v: entry codec, index walk, sorted-index search, tombstone
   marking (shared by C05 and C07), then the EC-volume delete / rebuild theorems (C07). *)
From Coq Require Import List NArith ZArith Bool Lia Sorted.
From Coq Require Import ZifyBool ZifyN ZifyNat.
From SW Require Import model.EcIndex.
Import ListNotations.
Local Open Scope N_scope.

Definition ok_osz (osz : N) : Prop := osz = 4%N \/ osz = 5%N.
Definition wf_entry (osz : N) (e : entry) : Prop :=
  (e_key e < two64)%N /\ (e_off e < 256 ^ osz)%N /\ (-2147483648 <= e_size e < 2147483648)%Z.
Definition sorted_keys (es : list entry) : Prop :=
  StronglySorted (fun a b => (e_key a < e_key b)%N) es.

(* ---------- list helpers ---------- *)
Lemma firstn_len_app : forall {A} (a b : list A) n, length a = n -> firstn n (a ++ b) = a.
Proof.
  intros A a b n H. subst n. rewrite firstn_app. rewrite Nat.sub_diag. simpl.
  rewrite firstn_all. apply app_nil_r.
Qed.
Lemma skipn_len_app : forall {A} (a b : list A) n, length a = n -> skipn n (a ++ b) = b.
Proof.
  intros A a b n H. subst n. rewrite skipn_app. rewrite Nat.sub_diag. simpl.
  rewrite skipn_all. reflexivity.
Qed.

(* ---------- big-endian codec ---------- *)
Lemma be_bytes_length : forall n v, length (be_bytes n v) = n.
Proof. induction n; intros; simpl; auto. Qed.

Lemma be_fold : forall n v a,
  fold_left (fun a b => a * 256 + b) (be_bytes n v) a = a * 256 ^ N.of_nat n + v mod 256 ^ N.of_nat n.
Proof.
  induction n as [|n IH]; intros v a.
  - simpl. rewrite N.mod_1_r. lia.
  - cbn [be_bytes fold_left]. rewrite IH.
    rewrite Nat2N.inj_succ, N.pow_succ_r'.
    assert (Hp : 256 ^ N.of_nat n <> 0) by (apply N.pow_nonzero; lia).
    replace (256 * 256 ^ N.of_nat n) with (256 ^ N.of_nat n * 256) by lia.
    rewrite (N.mod_mul_r v (256 ^ N.of_nat n) 256) by lia.
    lia.
Qed.

Lemma be_val_bytes : forall n v, v < 256 ^ N.of_nat n -> be_val (be_bytes n v) = v.
Proof.
  intros n v H. unfold be_val. rewrite be_fold. rewrite N.mod_small by assumption. lia.
Qed.

Lemma be_bytes_lt : forall n v b, In b (be_bytes n v) -> b < 256.
Proof.
  induction n as [|n IH]; intros v b H; simpl in H; [tauto|].
  destruct H as [H|H]; [subst b; apply N.mod_lt; lia | eauto].
Qed.

Lemma entry_size_4 : entry_size 4 = 16. Proof. reflexivity. Qed.
Lemma entry_size_5 : entry_size 5 = 17. Proof. reflexivity. Qed.

Lemma enc_off_length : forall osz off, ok_osz osz -> length (enc_off osz off) = N.to_nat osz.
Proof.
  intros osz off [H|H]; subst; unfold enc_off; rewrite app_length, be_bytes_length; reflexivity.
Qed.

Lemma enc_entry_length : forall osz e, ok_osz osz -> length (enc_entry osz e) = N.to_nat (entry_size osz).
Proof.
  intros osz e H. unfold enc_entry, enc_key.
  rewrite !app_length, !be_bytes_length, enc_off_length by assumption.
  destruct H; subst; reflexivity.
Qed.

Lemma dec_enc_off : forall osz off, ok_osz osz -> off < 256 ^ osz -> dec_off osz (enc_off osz off) = off.
Proof.
  intros osz off [H|H] Hlt; subst; unfold dec_off, enc_off.
  - change (4 =? 5) with false. rewrite app_nil_r.
    rewrite firstn_all2 by (rewrite be_bytes_length; lia).
    rewrite be_val_bytes.
    + change (256 ^ 4) with two32 in Hlt. rewrite N.mod_small by assumption. lia.
    + apply N.mod_lt. discriminate.
  - change (5 =? 5) with true.
    rewrite firstn_len_app by apply be_bytes_length.
    rewrite app_nth2 by (rewrite be_bytes_length; lia).
    rewrite be_bytes_length. change (4 - 4)%nat with 0%nat. cbn [nth].
    rewrite be_val_bytes by (apply N.mod_lt; discriminate).
    change (256 ^ 5) with (two32 * 256) in Hlt.
    assert (off / two32 < 256) by (apply N.div_lt_upper_bound; [discriminate|lia]).
    rewrite (N.mod_small (off / two32)) by assumption.
    pose proof (N.div_mod off two32). unfold two32 in *. lia.
Qed.

Lemma size_u32_roundtrip : forall s, (-2147483648 <= s < 2147483648)%Z ->
  size_of_u32 (be_val (be_bytes 4 (u32_of_size s))) = s.
Proof.
  intros s Hs.
  assert (Hlt : u32_of_size s < 256 ^ N.of_nat 4).
  { unfold u32_of_size. change (256 ^ N.of_nat 4) with 4294967296.
    pose proof (Z.mod_pos_bound s 4294967296). lia. }
  rewrite be_val_bytes by assumption.
  unfold size_of_u32, u32_of_size, two31.
  destruct (Z.ltb_spec s 0).
  - assert (E : (s mod 4294967296 = s + 4294967296)%Z).
    { symmetry. apply (Z.mod_unique _ _ (-1)); lia. }
    rewrite E. destruct (N.ltb_spec (Z.to_N (s + 4294967296)) 2147483648); lia.
  - rewrite Z.mod_small by lia.
    destruct (N.ltb_spec (Z.to_N s) 2147483648); lia.
Qed.

Lemma dec_enc_entry : forall osz e, ok_osz osz -> wf_entry osz e -> dec_entry osz (enc_entry osz e) = e.
Proof.
  intros osz e Hosz [Hk [Ho Hs]]. destruct e as [k o s]. cbn [e_key e_off e_size] in *.
  unfold dec_entry, enc_entry, enc_key. cbn [e_key e_off e_size].
  rewrite firstn_len_app by apply be_bytes_length.
  rewrite skipn_len_app by apply be_bytes_length.
  rewrite firstn_len_app by (apply enc_off_length; assumption).
  replace (8 + N.to_nat osz)%nat with (length (be_bytes 8 k ++ enc_off osz o)).
  2:{ rewrite app_length, be_bytes_length, enc_off_length by assumption. reflexivity. }
  rewrite app_assoc. rewrite skipn_len_app by reflexivity.
  rewrite firstn_all2 by (rewrite be_bytes_length; lia).
  rewrite be_val_bytes by (change (256 ^ N.of_nat 8) with two64; assumption).
  rewrite dec_enc_off by assumption.
  rewrite size_u32_roundtrip by assumption. reflexivity.
Qed.

(* ---------- encode / walk ---------- *)
Lemma encode_app : forall osz a b, encode osz (a ++ b) = encode osz a ++ encode osz b.
Proof. intros. unfold encode. rewrite map_app, concat_app. reflexivity. Qed.

Lemma encode_cons : forall osz e es, encode osz (e :: es) = enc_entry osz e ++ encode osz es.
Proof. reflexivity. Qed.

Lemma encode_length : forall osz es, ok_osz osz ->
  length (encode osz es) = (length es * N.to_nat (entry_size osz))%nat.
Proof.
  intros osz es H. induction es as [|e es IH]; [reflexivity|].
  rewrite encode_cons, app_length, IH, enc_entry_length by assumption. simpl. lia.
Qed.

Lemma walk_fuel_encode : forall osz es fuel rest, ok_osz osz -> Forall (wf_entry osz) es ->
  (length es <= fuel)%nat -> (length rest < N.to_nat (entry_size osz))%nat ->
  walk_fuel fuel osz (encode osz es ++ rest) = es.
Proof.
  intros osz es. induction es as [|e es IH]; intros fuel rest Hosz Hwf Hf Hr.
  - simpl. destruct fuel; [reflexivity|]. simpl.
    destruct (Nat.ltb_spec (length rest) (N.to_nat (entry_size osz))); [reflexivity|lia].
  - destruct fuel; [simpl in Hf; lia|].
    inversion Hwf as [|? ? He Hes]; subst.
    rewrite encode_cons, <- app_assoc. cbn [walk_fuel].
    destruct (Nat.ltb_spec (length (enc_entry osz e ++ encode osz es ++ rest)) (N.to_nat (entry_size osz))) as [Hl|Hl].
    { rewrite app_length, enc_entry_length in Hl by assumption. lia. }
    rewrite firstn_len_app by (apply enc_entry_length; assumption).
    rewrite skipn_len_app by (apply enc_entry_length; assumption).
    rewrite dec_enc_entry by assumption. f_equal.
    apply IH; auto. simpl in Hf. lia.
Qed.

Lemma walk_encode : forall osz es, ok_osz osz -> Forall (wf_entry osz) es -> walk osz (encode osz es) = es.
Proof.
  intros osz es Hosz Hwf. unfold walk.
  rewrite <- (app_nil_r (encode osz es)) at 2.
  apply walk_fuel_encode; auto.
  - rewrite encode_length by assumption. destruct Hosz; subst; simpl; lia.
  - destruct Hosz; subst; simpl; lia.
Qed.

(* ---------- positional access into an encoded index ---------- *)
Lemma read_at_encode : forall osz a e b, ok_osz osz ->
  read_at (encode osz (a ++ e :: b)) (N.of_nat (length a) * entry_size osz) (entry_size osz)
  = Some (enc_entry osz e).
Proof.
  intros osz a e b Hosz. unfold read_at.
  rewrite encode_app, encode_cons.
  assert (La : length (encode osz a) = N.to_nat (N.of_nat (length a) * entry_size osz)).
  { rewrite encode_length by assumption. destruct Hosz; subst; lia. }
  destruct (N.leb_spec (N.of_nat (length a) * entry_size osz + entry_size osz)
             (N.of_nat (length (encode osz a ++ enc_entry osz e ++ encode osz b)))) as [Hle|Hgt].
  - rewrite skipn_len_app by assumption.
    rewrite firstn_len_app by (apply enc_entry_length; assumption). reflexivity.
  - rewrite !app_length, enc_entry_length in Hgt by assumption. lia.
Qed.

Lemma split_nth : forall {A} (l : list A) n d, (n < length l)%nat ->
  l = firstn n l ++ nth n l d :: skipn (S n) l /\ length (firstn n l) = n.
Proof.
  intros A l. induction l as [|x l IH]; intros n d H; simpl in H; [lia|].
  destruct n; simpl.
  - auto.
  - destruct (IH n d) as [E L]; [lia|]. split; [f_equal; exact E | f_equal; exact L].
Qed.

Lemma read_at_encode_nth : forall osz es m d, ok_osz osz -> (N.to_nat m < length es)%nat ->
  read_at (encode osz es) (m * entry_size osz) (entry_size osz)
  = Some (enc_entry osz (nth (N.to_nat m) es d)).
Proof.
  intros osz es m d Hosz Hm.
  destruct (split_nth es (N.to_nat m) d Hm) as [E L].
  pose proof (read_at_encode osz (firstn (N.to_nat m) es) (nth (N.to_nat m) es d)
                (skipn (S (N.to_nat m)) es) Hosz) as R.
  rewrite <- E in R. rewrite L in R. rewrite N2Nat.id in R. exact R.
Qed.

(* ---------- binary search over a strictly sorted encoded index ---------- *)
Lemma sorted_nth_lt : forall es i j d, sorted_keys es -> (i < j)%nat -> (j < length es)%nat ->
  e_key (nth i es d) < e_key (nth j es d).
Proof.
  intros es. induction es as [|x es IH]; intros i j d Hs Hij Hj; simpl in Hj; [lia|].
  inversion Hs as [|? ? Hs' Hall]; subst.
  destruct j; [lia|]. destruct i; simpl.
  - rewrite Forall_forall in Hall. apply Hall. apply nth_In. lia.
  - apply IH; auto; lia.
Qed.

Lemma search_loop_spec : forall osz es key d, ok_osz osz -> Forall (wf_entry osz) es -> sorted_keys es ->
  forall fuel l h,
  l <= h -> h <= N.of_nat (length es) ->
  (N.to_nat (h - l) < fuel)%nat ->
  (forall i, (i < N.to_nat l)%nat -> e_key (nth i es d) < key) ->
  (forall i, (N.to_nat h <= i < length es)%nat -> key < e_key (nth i es d)) ->
  match search_loop fuel osz (encode osz es) key l h with
  | SFound m off size => nth_error es (N.to_nat m) = Some {| e_key := key; e_off := off; e_size := size |}
  | SNotFound => ~ In key (map e_key es)
  | SReadErr => False
  end.
Proof.
  intros osz es key d Hosz Hwf Hs. induction fuel as [|fuel IH]; intros l h Hlh Hh Hf Hlo Hhi; [lia|].
  cbn [search_loop]. destruct (N.ltb_spec l h) as [Hlt|Hge].
  - set (m := (l + h) / 2).
    assert (Hm : l <= m < h).
    { unfold m. split.
      - apply N.div_le_lower_bound; lia.
      - apply N.div_lt_upper_bound; lia. }
    assert (Hml : (N.to_nat m < length es)%nat) by lia.
    rewrite (read_at_encode_nth osz es m d Hosz Hml).
    rewrite dec_enc_entry; auto.
    2:{ rewrite Forall_forall in Hwf. apply Hwf. apply nth_In. assumption. }
    destruct (N.eqb_spec (e_key (nth (N.to_nat m) es d)) key) as [He|Hne].
    + rewrite (nth_error_nth' es d Hml). f_equal.
      destruct (nth (N.to_nat m) es d) as [k o s]. simpl in *. subst. reflexivity.
    + destruct (N.ltb_spec (e_key (nth (N.to_nat m) es d)) key) as [Hk|Hk].
      * apply IH; try lia.
        -- intros i Hi. destruct (Nat.eq_dec i (N.to_nat m)) as [->|Hne']; [assumption|].
           eapply N.lt_trans; [|exact Hk]. apply sorted_nth_lt; auto; lia.
        -- intros i Hi. apply Hhi. lia.
      * apply IH; try lia.
        -- intros i Hi. apply Hlo. lia.
        -- intros i Hi. destruct (Nat.eq_dec i (N.to_nat m)) as [->|Hne']; [lia|].
           eapply N.lt_trans with (m := e_key (nth (N.to_nat m) es d)); [lia|].
           apply sorted_nth_lt; auto; lia.
  - intro Hin. apply in_map_iff in Hin. destruct Hin as [e [Hk Hin]].
    apply (In_nth _ _ d) in Hin. destruct Hin as [i [Hi Hn]].
    destruct (Nat.lt_ge_cases i (N.to_nat l)) as [Hil|Hil].
    + specialize (Hlo i Hil). rewrite Hn in Hlo. lia.
    + assert (Hih : (N.to_nat h <= i < length es)%nat) by lia.
      specialize (Hhi i Hih). rewrite Hn in Hhi. lia.
Qed.

Lemma encode_count : forall osz es, ok_osz osz ->
  N.of_nat (length (encode osz es)) / entry_size osz = N.of_nat (length es).
Proof.
  intros osz es Hosz. rewrite encode_length by assumption.
  destruct Hosz; subst.
  - rewrite entry_size_4. change (N.to_nat 16) with 16%nat.
    replace (N.of_nat (length es * 16)) with (N.of_nat (length es) * 16) by lia.
    apply N.div_mul. discriminate.
  - rewrite entry_size_5. change (N.to_nat 17) with 17%nat.
    replace (N.of_nat (length es * 17)) with (N.of_nat (length es) * 17) by lia.
    apply N.div_mul. discriminate.
Qed.

Lemma search_sorted_spec : forall osz es key, ok_osz osz -> Forall (wf_entry osz) es -> sorted_keys es ->
  match search_sorted osz (encode osz es) (N.of_nat (length (encode osz es))) key with
  | SFound m off size => nth_error es (N.to_nat m) = Some {| e_key := key; e_off := off; e_size := size |}
  | SNotFound => ~ In key (map e_key es)
  | SReadErr => False
  end.
Proof.
  intros osz es key Hosz Hwf Hs. unfold search_sorted.
  rewrite encode_count by assumption.
  apply (search_loop_spec osz es key {| e_key := 0; e_off := 0; e_size := 0%Z |}); auto; try lia.
Qed.

(* ---------- writing the tombstone into entry m ---------- *)
Lemma write_at_mid : forall (P O S w : list N) pos,
  length P = N.to_nat pos -> length O = length w ->
  write_at (P ++ O ++ S) pos w = P ++ w ++ S.
Proof.
  intros P O S w pos HP HO. unfold write_at.
  rewrite firstn_len_app by assumption.
  replace (N.to_nat pos + length w)%nat with (length (P ++ O)) by (rewrite app_length; lia).
  replace (P ++ O ++ S) with ((P ++ O) ++ S) by (symmetry; apply app_assoc).
  rewrite skipn_len_app by reflexivity. reflexivity.
Qed.

Definition set_size (e : entry) (s : Z) : entry := {| e_key := e_key e; e_off := e_off e; e_size := s |}.

Lemma write_size_encode : forall osz a e b s, ok_osz osz ->
  write_at (encode osz (a ++ e :: b)) (N.of_nat (length a) * entry_size osz + 8 + osz)
           (be_bytes 4 (u32_of_size s))
  = encode osz (a ++ set_size e s :: b).
Proof.
  intros osz a e b s Hosz.
  rewrite !encode_app, !encode_cons.
  set (P := encode osz a ++ enc_key (e_key e) ++ enc_off osz (e_off e)).
  assert (E1 : encode osz a ++ enc_entry osz e ++ encode osz b
               = P ++ be_bytes 4 (u32_of_size (e_size e)) ++ encode osz b).
  { unfold P, enc_entry. rewrite <- !app_assoc. reflexivity. }
  assert (E2 : encode osz a ++ enc_entry osz (set_size e s) ++ encode osz b
               = P ++ be_bytes 4 (u32_of_size s) ++ encode osz b).
  { unfold P, enc_entry, set_size. cbn [e_key e_off e_size]. rewrite <- !app_assoc. reflexivity. }
  rewrite E1, E2. apply write_at_mid; [|rewrite !be_bytes_length; reflexivity].
  unfold P. rewrite !app_length, encode_length, enc_off_length by assumption.
  unfold enc_key. rewrite be_bytes_length. destruct Hosz; subst; lia.
Qed.

(* ====================================================================== *)
(* C07: deleting from an EC volume / a sorted index                        *)
(* ====================================================================== *)
Definition tomb (e : entry) : entry := set_size e tombstone.
(* the specification of a delete on the entry list: exactly the entry with that key is tombstoned *)
Definition set_deleted (key : N) (es : list entry) : list entry :=
  map (fun e => if e_key e =? key then tomb e else e) es.
(* reference read: first (= only) entry with the key *)
Definition lookup (k : N) (es : list entry) : option (N * Z) :=
  option_map (fun e => (e_off e, e_size e)) (find (fun e => e_key e =? k) es).
Definition sres_val (r : sres) : option (N * Z) :=
  match r with SFound _ o s => Some (o, s) | _ => None end.
Definition has_key (k : N) (es : list entry) : bool := existsb (fun e => e_key e =? k) es.
Definition live (e : entry) : bool := negb (size_is_deleted (e_size e)).
Definition in_keys (js : list N) (k : N) : bool := existsb (N.eqb k) js.

Lemma set_deleted_keys : forall key es, map e_key (set_deleted key es) = map e_key es.
Proof.
  intros key es. unfold set_deleted. rewrite map_map. apply map_ext.
  intros e. destruct (e_key e =? key); reflexivity.
Qed.
Lemma set_deleted_length : forall key es, length (set_deleted key es) = length es.
Proof. intros. unfold set_deleted. apply map_length. Qed.

Lemma sorted_keys_map : forall es es', map e_key es' = map e_key es -> sorted_keys es -> sorted_keys es'.
Proof.
  induction es as [|e es IH]; intros es' Hm Hs; destruct es' as [|e' es']; simpl in Hm; try discriminate.
  - constructor.
  - injection Hm as Hk Hm. inversion Hs as [|? ? Hs' Hall]; subst.
    constructor; [apply IH; auto|].
    rewrite Forall_forall in *. intros x Hx.
    assert (Hin : In (e_key x) (map e_key es)) by (rewrite <- Hm; apply in_map; exact Hx).
    apply in_map_iff in Hin. destruct Hin as [y [Hy Hin]]. rewrite Hk, <- Hy. apply Hall. exact Hin.
Qed.

Lemma set_deleted_sorted : forall key es, sorted_keys es -> sorted_keys (set_deleted key es).
Proof. intros. eapply sorted_keys_map; [apply set_deleted_keys|assumption]. Qed.

Lemma tomb_wf : forall osz e, wf_entry osz e -> wf_entry osz (tomb e).
Proof. intros osz e [A [B C]]. unfold wf_entry, tomb, set_size, tombstone; simpl. repeat split; auto; lia. Qed.

Lemma set_deleted_wf : forall osz key es, Forall (wf_entry osz) es -> Forall (wf_entry osz) (set_deleted key es).
Proof.
  intros osz key es H. unfold set_deleted. rewrite Forall_forall in *. intros x Hx.
  apply in_map_iff in Hx. destruct Hx as [e [He Hin]]. subst x.
  destruct (e_key e =? key); [apply tomb_wf|]; auto.
Qed.

Lemma sorted_app_inv : forall a e b, sorted_keys (a ++ e :: b) ->
  Forall (fun x => e_key x < e_key e) a /\ Forall (fun x => e_key e < e_key x) b.
Proof.
  induction a as [|x a IH]; intros e b Hs; simpl in Hs; inversion Hs as [|? ? Hs' Hall]; subst.
  - split; [constructor|assumption].
  - destruct (IH e b Hs') as [Ha Hb]. split; [|assumption].
    constructor; [|assumption]. rewrite Forall_forall in Hall. apply Hall. apply in_or_app. right. left. reflexivity.
Qed.

Lemma set_deleted_split : forall key a e b, sorted_keys (a ++ e :: b) -> e_key e = key ->
  set_deleted key (a ++ e :: b) = a ++ tomb e :: b.
Proof.
  intros key a e b Hs He. destruct (sorted_app_inv a e b Hs) as [Ha Hb].
  unfold set_deleted. rewrite map_app. simpl. rewrite He, N.eqb_refl. f_equal; [|f_equal].
  - rewrite <- (map_id a) at 2. apply map_ext_in. intros x Hx.
    rewrite Forall_forall in Ha. specialize (Ha x Hx).
    destruct (N.eqb_spec (e_key x) key); [lia|reflexivity].
  - rewrite <- (map_id b) at 2. apply map_ext_in. intros x Hx.
    rewrite Forall_forall in Hb. specialize (Hb x Hx).
    destruct (N.eqb_spec (e_key x) key); [lia|reflexivity].
Qed.

Lemma set_deleted_absent : forall key es, has_key key es = false -> set_deleted key es = es.
Proof.
  intros key es H. unfold set_deleted. rewrite <- (map_id es) at 2. apply map_ext_in.
  intros e He. unfold has_key in H.
  destruct (e_key e =? key) eqn:E; [|reflexivity].
  assert (existsb (fun e => e_key e =? key) es = true) by (apply existsb_exists; eauto). congruence.
Qed.

Lemma has_key_in : forall key es, has_key key es = true <-> In key (map e_key es).
Proof.
  intros key es. unfold has_key. rewrite existsb_exists, in_map_iff. split.
  - intros [e [Hin He]]. exists e. split; [apply N.eqb_eq|]; assumption.
  - intros [e [He Hin]]. exists e. split; [|apply N.eqb_eq]; assumption.
Qed.

Lemma find_sorted_unique : forall es m e, sorted_keys es -> nth_error es m = Some e ->
  find (fun x => e_key x =? e_key e) es = Some e.
Proof.
  induction es as [|x es IH]; intros m e Hs Hn; [destruct m; discriminate|].
  inversion Hs as [|? ? Hs' Hall]; subst. destruct m; simpl in Hn.
  - injection Hn as ->. simpl. rewrite N.eqb_refl. reflexivity.
  - simpl. assert (Hin : In e es) by (eapply nth_error_In; eauto).
    rewrite Forall_forall in Hall. specialize (Hall e Hin).
    destruct (N.eqb_spec (e_key x) (e_key e)); [lia|]. eapply IH; eauto.
Qed.

Lemma find_none_keys : forall k es, ~ In k (map e_key es) -> find (fun x => e_key x =? k) es = None.
Proof.
  intros k es H. destruct (find (fun x => e_key x =? k) es) as [e|] eqn:E; [|reflexivity].
  apply find_some in E. destruct E as [Hin He]. apply N.eqb_eq in He. exfalso. apply H.
  apply in_map_iff. eauto.
Qed.

(* FindNeedleFromEcx / SortedFileNeedleMap.Get read exactly the entry list *)
Lemma search_lookup : forall osz es key, ok_osz osz -> Forall (wf_entry osz) es -> sorted_keys es ->
  sres_val (search_sorted osz (encode osz es) (N.of_nat (length (encode osz es))) key) = lookup key es.
Proof.
  intros osz es key Hosz Hwf Hs. pose proof (search_sorted_spec osz es key Hosz Hwf Hs) as H.
  unfold lookup.
  destruct (search_sorted osz (encode osz es) (N.of_nat (length (encode osz es))) key) as [m o s| |].
  - pose proof (find_sorted_unique es (N.to_nat m) _ Hs H) as F. simpl in F. rewrite F. reflexivity.
  - rewrite find_none_keys by assumption. reflexivity.
  - contradiction.
Qed.

Lemma search_mark_true : forall osz es key, ok_osz osz -> Forall (wf_entry osz) es -> sorted_keys es ->
  search_mark true osz (encode osz es) (N.of_nat (length (encode osz es))) key =
  if has_key key es then (ENone, encode osz (set_deleted key es)) else (ENotFound, encode osz es).
Proof.
  intros osz es key Hosz Hwf Hs. unfold search_mark.
  pose proof (search_sorted_spec osz es key Hosz Hwf Hs) as H.
  destruct (search_sorted osz (encode osz es) (N.of_nat (length (encode osz es))) key) as [m o s| |].
  - destruct (nth_error_split es (N.to_nat m) H) as [a [b [E L]]].
    assert (Hk : has_key key es = true).
    { apply has_key_in. rewrite E, map_app. apply in_or_app. right. left. reflexivity. }
    rewrite Hk. unfold mark_deleted, callback_offset. f_equal. f_equal.
    rewrite E. replace m with (N.of_nat (length a)) by lia.
    rewrite write_size_encode by assumption.
    rewrite set_deleted_split; [reflexivity| rewrite <- E; assumption | reflexivity].
  - assert (Hk : has_key key es = false).
    { destruct (has_key key es) eqn:E; [|reflexivity]. apply has_key_in in E. contradiction. }
    rewrite Hk. reflexivity.
  - contradiction.
Qed.

Lemma set_deleted_encode_length : forall osz key es, ok_osz osz ->
  length (encode osz (set_deleted key es)) = length (encode osz es).
Proof. intros. rewrite !encode_length, set_deleted_length by assumption. reflexivity. Qed.

Lemma lookup_set_deleted : forall key k es,
  lookup k (set_deleted key es) =
  if k =? key then option_map (fun v => (fst v, tombstone)) (lookup k es) else lookup k es.
Proof.
  intros key k es. unfold lookup, set_deleted. induction es as [|e es IH]; simpl.
  - destruct (k =? key); reflexivity.
  - destruct (N.eqb_spec (e_key e) key) as [Ek|Ek].
    + simpl. destruct (N.eqb_spec (e_key e) k) as [Ek'|Ek'].
      * subst. rewrite N.eqb_refl. reflexivity.
      * exact IH.
    + destruct (N.eqb_spec (e_key e) k) as [Ek'|Ek'].
      * simpl. destruct (N.eqb_spec k key); [congruence|reflexivity].
      * exact IH.
Qed.

(* ---- c07_delete_exact ---- *)
Theorem delete_exact : forall osz es ecj key,
  ok_osz osz -> Forall (wf_entry osz) es -> sorted_keys es ->
  delete_from_ecx osz (encode osz es) ecj key =
    (ENone, encode osz (set_deleted key es), if has_key key es then ecj ++ enc_key key else ecj)
  /\ (has_key key es = false -> set_deleted key es = es)
  /\ (forall k, sres_val (find_from_ecx osz (encode osz (set_deleted key es)) k) =
        if k =? key then option_map (fun v => (fst v, tombstone)) (lookup k es) else lookup k es)
  /\ (forall k, sres_val (find_from_ecx osz (encode osz es) k) = lookup k es).
Proof.
  intros osz es ecj key Hosz Hwf Hs. repeat split.
  - unfold delete_from_ecx, file_size. rewrite search_mark_true by assumption.
    destruct (has_key key es) eqn:E; [reflexivity|].
    rewrite set_deleted_absent by assumption. reflexivity.
  - apply set_deleted_absent.
  - intros k. unfold find_from_ecx, file_size.
    rewrite search_lookup; auto using set_deleted_wf, set_deleted_sorted.
    apply lookup_set_deleted.
  - intros k. unfold find_from_ecx, file_size. apply search_lookup; auto.
Qed.

(* ---- journal ---- *)
Lemma ecj_keys_fuel_concat : forall js fuel rest, Forall (fun k => k < two64) js ->
  (length js <= fuel)%nat -> (length rest < 8)%nat ->
  ecj_keys_fuel fuel (concat (map enc_key js) ++ rest) = js.
Proof.
  induction js as [|j js IH]; intros fuel rest Hj Hf Hr.
  - simpl. destruct fuel; [reflexivity|]. simpl.
    destruct (Nat.ltb_spec (length rest) 8); [reflexivity|lia].
  - destruct fuel; [simpl in Hf; lia|]. inversion Hj as [|? ? Hj1 Hj2]; subst.
    cbn [map concat ecj_keys_fuel]. rewrite <- app_assoc.
    destruct (Nat.ltb_spec (length (enc_key j ++ concat (map enc_key js) ++ rest)) 8) as [Hl|Hl].
    { rewrite app_length in Hl. unfold enc_key in Hl. rewrite be_bytes_length in Hl. lia. }
    unfold enc_key at 1 2.
    rewrite firstn_len_app by apply be_bytes_length.
    rewrite skipn_len_app by apply be_bytes_length.
    rewrite be_val_bytes by (change (256 ^ N.of_nat 8) with two64; assumption).
    f_equal. apply IH; auto. simpl in Hf. lia.
Qed.

Lemma ecj_keys_concat : forall js, Forall (fun k => k < two64) js ->
  ecj_keys (concat (map enc_key js)) = js.
Proof.
  intros js H. unfold ecj_keys. rewrite <- (app_nil_r (concat (map enc_key js))) at 2.
  apply ecj_keys_fuel_concat; auto; [|simpl; lia].
  clear H. induction js as [|j js IH]; [simpl; lia|]. cbn [map concat length].
  rewrite app_length. unfold enc_key at 1. rewrite be_bytes_length. lia.
Qed.

(* ---- RebuildEcxFile ---- *)
Definition mark_all (js : list N) (es : list entry) : list entry :=
  map (fun e => if in_keys js (e_key e) then tomb e else e) es.

Lemma fold_set_deleted : forall js es,
  fold_left (fun es k => set_deleted k es) js es = mark_all js es.
Proof.
  induction js as [|j js IH]; intros es.
  - simpl. unfold mark_all. simpl. symmetry. apply map_id.
  - simpl. rewrite IH. unfold mark_all, set_deleted. rewrite map_map. apply map_ext.
    intros e. unfold in_keys. simpl.
    destruct (N.eqb_spec (e_key e) j) as [E|E].
    + simpl. destruct (existsb (N.eqb (e_key e)) js); reflexivity.
    + reflexivity.
Qed.

Lemma mark_all_keys : forall js es, map e_key (mark_all js es) = map e_key es.
Proof.
  intros. unfold mark_all. rewrite map_map. apply map_ext. intros e.
  destruct (in_keys js (e_key e)); reflexivity.
Qed.
Lemma mark_all_wf : forall osz js es, Forall (wf_entry osz) es -> Forall (wf_entry osz) (mark_all js es).
Proof.
  intros osz js es H. unfold mark_all. rewrite Forall_forall in *. intros x Hx.
  apply in_map_iff in Hx. destruct Hx as [e [He Hin]]. subst x.
  destruct (in_keys js (e_key e)); [apply tomb_wf|]; auto.
Qed.
Lemma mark_all_sorted : forall js es, sorted_keys es -> sorted_keys (mark_all js es).
Proof. intros. eapply sorted_keys_map; [apply mark_all_keys|assumption]. Qed.

Lemma rebuild_keys_spec : forall osz js es, ok_osz osz -> Forall (wf_entry osz) es -> sorted_keys es ->
  rebuild_keys osz (encode osz es) (N.of_nat (length (encode osz es))) js =
  (ENone, encode osz (fold_left (fun es k => set_deleted k es) js es)).
Proof.
  intros osz js. induction js as [|j js IH]; intros es Hosz Hwf Hs; [reflexivity|].
  cbn [rebuild_keys fold_left]. rewrite search_mark_true by assumption.
  destruct (has_key j es) eqn:E.
  - rewrite <- (set_deleted_encode_length osz j es Hosz).
    apply IH; auto using set_deleted_wf, set_deleted_sorted.
  - rewrite (set_deleted_absent j es E). apply IH; auto.
Qed.

Lemma live_tomb : forall e, live (tomb e) = false.
Proof. reflexivity. Qed.

Lemma filter_live_mark_all : forall js es,
  filter live (mark_all js es) = filter (fun e => live e && negb (in_keys js (e_key e))) es.
Proof.
  intros js es. unfold mark_all. induction es as [|e es IH]; [reflexivity|].
  simpl. destruct (in_keys js (e_key e)) eqn:E.
  - rewrite live_tomb. rewrite andb_false_r. exact IH.
  - simpl. rewrite andb_true_r. destruct (live e); [f_equal|]; exact IH.
Qed.

(* ---- MemDb replay of an idx file ---- *)
Definition kv_sorted (m : omap) : Prop := StronglySorted (fun a b => fst a < fst b) m.

Lemma om_put_append : forall m k v, Forall (fun kv => fst kv < k) m -> om_put m k v = m ++ [(k, v)].
Proof.
  induction m as [|[k' v'] m IH]; intros k v H; [reflexivity|].
  inversion H as [|? ? H1 H2]; subst. simpl in *.
  destruct (N.ltb_spec k k'); [lia|]. destruct (N.eqb_spec k k'); [lia|]. f_equal. auto.
Qed.
Lemma om_del_above : forall m k, Forall (fun kv => fst kv < k) m -> om_del m k = m.
Proof.
  induction m as [|[k' v'] m IH]; intros k H; [reflexivity|].
  inversion H as [|? ? H1 H2]; subst. simpl in *.
  destruct (N.ltb_spec k k'); [lia|]. destruct (N.eqb_spec k k'); [lia|]. f_equal. auto.
Qed.

Lemma filter_all_true : forall {A} (f : A -> bool) l, (forall x, In x l -> f x = true) -> filter f l = l.
Proof.
  intros A f l. induction l as [|x l IH]; intros H; [reflexivity|]. simpl.
  rewrite (H x (or_introl eq_refl)). f_equal. apply IH. intros y Hy. apply H. right. exact Hy.
Qed.

Lemma om_del_filter : forall m k, kv_sorted m -> om_del m k = filter (fun kv => negb (fst kv =? k)) m.
Proof.
  induction m as [|[k' v'] m IH]; intros k Hs; [reflexivity|].
  inversion Hs as [|? ? Hs' Hall]; subst. rewrite Forall_forall in Hall. cbn [om_del filter fst].
  destruct (N.ltb_spec k k') as [Hlt|Hge].
  - destruct (N.eqb_spec k' k); [lia|]. simpl. f_equal. symmetry. apply filter_all_true.
    intros x Hx. specialize (Hall x Hx). simpl in Hall. destruct (N.eqb_spec (fst x) k); [lia|reflexivity].
  - destruct (N.eqb_spec k k') as [E|E].
    + subst. rewrite N.eqb_refl. simpl. symmetry. apply filter_all_true.
      intros x Hx. specialize (Hall x Hx). simpl in Hall. destruct (N.eqb_spec (fst x) k'); [lia|reflexivity].
    + destruct (N.eqb_spec k' k); [congruence|]. simpl. f_equal. apply IH. assumption.
Qed.

Lemma kv_sorted_filter : forall f m, kv_sorted m -> kv_sorted (filter f m).
Proof.
  intros f m H. induction H as [|x m Hs IH Hall]; simpl; [constructor|].
  destruct (f x); [|assumption]. constructor; [assumption|].
  rewrite Forall_forall in *. intros y Hy. apply filter_In in Hy. apply Hall. tauto.
Qed.

Lemma filter_filter : forall {A} (f g : A -> bool) l,
  filter f (filter g l) = filter (fun x => g x && f x) l.
Proof.
  intros A f g l. induction l as [|x l IH]; [reflexivity|]. simpl.
  destruct (g x); simpl; [destruct (f x); [f_equal|]|]; exact IH.
Qed.

Lemma fold_tombs : forall js m, kv_sorted m ->
  fold_left memdb_step (map tomb_entry js) m = filter (fun kv => negb (in_keys js (fst kv))) m.
Proof.
  intros js. induction js as [|j js IH]; intros m Hs.
  - simpl. symmetry. apply filter_all_true. reflexivity.
  - cbn [map fold_left]. unfold memdb_step at 2. cbn [tomb_entry e_off e_key e_size].
    change (0 =? 0) with true. cbn [orb].
    rewrite om_del_filter by assumption. rewrite IH by (apply kv_sorted_filter; assumption).
    rewrite filter_filter. apply filter_ext. intros kv. unfold in_keys. simpl.
    rewrite negb_orb. reflexivity.
Qed.

Lemma fold_memdb_sorted : forall es acc, sorted_keys es -> Forall (fun e => e_off e <> 0) es ->
  (forall kv e, In kv acc -> In e es -> fst kv < e_key e) ->
  fold_left memdb_step es acc = acc ++ map kv_of_entry (filter live es).
Proof.
  induction es as [|e es IH]; intros acc Hs Hnz Hlt.
  - simpl. symmetry. apply app_nil_r.
  - inversion Hs as [|? ? Hs' Hall]; subst. inversion Hnz as [|? ? Hz Hnz']; subst.
    rewrite Forall_forall in Hall.
    assert (Hacc : Forall (fun kv => fst kv < e_key e) acc).
    { rewrite Forall_forall. intros kv Hkv. apply Hlt; [assumption|left; reflexivity]. }
    cbn [fold_left filter]. unfold memdb_step at 2, live at 1.
    destruct (N.eqb_spec (e_off e) 0) as [Z0|_]; [contradiction|]. cbn [orb].
    destruct (size_is_deleted (e_size e)); cbn [negb].
    + rewrite om_del_above by assumption. apply IH; auto.
      intros kv x Hkv Hx. apply Hlt; [assumption|right; assumption].
    + rewrite om_put_append by assumption. rewrite IH; auto.
      * cbn [map]. rewrite <- app_assoc. reflexivity.
      * intros kv x Hkv Hx. apply in_app_or in Hkv. destruct Hkv as [Hkv|[Hkv|[]]].
        -- apply Hlt; [assumption|right; assumption].
        -- subst kv. simpl. apply Hall. assumption.
Qed.

Lemma kv_sorted_live : forall es, sorted_keys es -> kv_sorted (map kv_of_entry (filter live es)).
Proof.
  intros es H. induction H as [|e es Hs IH Hall]; simpl; [constructor|].
  destruct (live e); [|assumption]. simpl. constructor; [assumption|].
  rewrite Forall_forall in *. intros kv Hkv. apply in_map_iff in Hkv.
  destruct Hkv as [x [Hx Hin]]. subst kv. simpl. apply filter_In in Hin. apply Hall. tauto.
Qed.

Definition live_spec (js : list N) (es : list entry) : omap :=
  map kv_of_entry (filter (fun e => live e && negb (in_keys js (e_key e))) es).

Lemma filter_map_kv : forall js es,
  filter (fun kv => negb (in_keys js (fst kv))) (map kv_of_entry (filter live es)) = live_spec js es.
Proof.
  intros js es. unfold live_spec. induction es as [|e es IH]; [reflexivity|]. simpl.
  destruct (live e); simpl; [|exact IH].
  destruct (in_keys js (e_key e)); simpl; [|f_equal]; exact IH.
Qed.

Lemma tomb_entries_wf : forall osz js, ok_osz osz -> Forall (fun k => k < two64) js ->
  Forall (wf_entry osz) (map tomb_entry js).
Proof.
  intros osz js Hosz H. rewrite Forall_forall in *. intros x Hx. apply in_map_iff in Hx.
  destruct Hx as [k [Hk Hin]]. subst x. unfold wf_entry, tomb_entry, tombstone. simpl.
  repeat split; auto; try lia; try (destruct Hosz; subst; reflexivity).
Qed.

(* ---- c07_rebuild ---- *)
Theorem rebuild_same_live_set : forall osz es js,
  ok_osz osz -> Forall (wf_entry osz) es -> sorted_keys es -> Forall (fun e => e_off e <> 0) es ->
  Forall (fun k => k < two64) js ->
  let ecx := encode osz es in
  let ecj := concat (map enc_key js) in
  memdb_load osz (write_idx_from_ec osz ecx ecj) = live_spec js es /\
  exists ecx', rebuild_ecx osz ecx ecj = (ENone, ecx') /\
               ecx' = encode osz (mark_all js es) /\
               live_of_sorted osz ecx' = live_spec js es.
Proof.
  intros osz es js Hosz Hwf Hs Hnz Hjs ecx ecj. subst ecx ecj. split.
  - unfold memdb_load, write_idx_from_ec. rewrite ecj_keys_concat by assumption.
    rewrite <- encode_app. rewrite walk_encode by (try assumption; apply Forall_app; auto using tomb_entries_wf).
    rewrite fold_left_app.
    rewrite (fold_memdb_sorted es []) by (try assumption; intros kv e []).
    cbn [app]. rewrite fold_tombs by (apply kv_sorted_live; assumption).
    apply filter_map_kv.
  - exists (encode osz (mark_all js es)). split; [|split; [reflexivity|]].
    + unfold rebuild_ecx, file_size. rewrite ecj_keys_concat by assumption.
      rewrite rebuild_keys_spec by assumption. rewrite fold_set_deleted. reflexivity.
    + unfold live_of_sorted. rewrite walk_encode by auto using mark_all_wf.
      fold live. rewrite filter_live_mark_all. reflexivity.
Qed.

(* ---- a run of deletions, then the index rebuilt from .ecx + .ecj ---- *)
Fixpoint delete_many (osz : N) (ecx ecj : list N) (ks : list N) : list N * list N :=
  match ks with
  | [] => (ecx, ecj)
  | k :: ks' => let '(_, ecx', ecj') := delete_from_ecx osz ecx ecj k in delete_many osz ecx' ecj' ks'
  end.

Lemma has_key_set_deleted : forall k j es, has_key k (set_deleted j es) = has_key k es.
Proof.
  intros k j es. destruct (has_key k es) eqn:E.
  - apply has_key_in. rewrite set_deleted_keys. apply has_key_in. assumption.
  - destruct (has_key k (set_deleted j es)) eqn:E'; [|reflexivity].
    apply has_key_in in E'. rewrite set_deleted_keys in E'. apply has_key_in in E'. congruence.
Qed.

Lemma delete_many_spec : forall osz ks es ecj, ok_osz osz -> Forall (wf_entry osz) es -> sorted_keys es ->
  delete_many osz (encode osz es) ecj ks =
  (encode osz (mark_all ks es), ecj ++ concat (map enc_key (filter (fun k => has_key k es) ks))).
Proof.
  intros osz ks. induction ks as [|k ks IH]; intros es ecj Hosz Hwf Hs.
  - simpl. rewrite app_nil_r. unfold mark_all. simpl. rewrite map_id. reflexivity.
  - cbn [delete_many]. destruct (delete_exact osz es ecj k Hosz Hwf Hs) as [E _]. rewrite E.
    rewrite IH by auto using set_deleted_wf, set_deleted_sorted.
    rewrite <- !fold_set_deleted. cbn [fold_left]. f_equal.
    cbn [filter]. rewrite (filter_ext _ (fun k0 => has_key k0 es)) by (intros; apply has_key_set_deleted).
    destruct (has_key k es); [|reflexivity].
    cbn [map concat]. rewrite <- app_assoc. reflexivity.
Qed.

Lemma mark_all_offsets : forall js es, Forall (fun e => e_off e <> 0) es ->
  Forall (fun e => e_off e <> 0) (mark_all js es).
Proof.
  intros js es H. unfold mark_all. rewrite Forall_forall in *. intros x Hx.
  apply in_map_iff in Hx. destruct Hx as [e [He Hin]]. subst x.
  destruct (in_keys js (e_key e)); simpl; auto.
Qed.

Theorem deletes_then_decode : forall osz es ks,
  ok_osz osz -> Forall (wf_entry osz) es -> sorted_keys es -> Forall (fun e => e_off e <> 0) es ->
  Forall (fun k => k < two64) ks ->
  let '(ecx', ecj') := delete_many osz (encode osz es) [] ks in
  memdb_load osz (write_idx_from_ec osz ecx' ecj') = live_of_sorted osz ecx' /\
  live_of_sorted osz ecx' = live_spec ks es.
Proof.
  intros osz es ks Hosz Hwf Hs Hnz Hks.
  rewrite delete_many_spec by assumption. cbn [app].
  set (js := filter (fun k => has_key k es) ks).
  assert (Hjs : Forall (fun k => k < two64) js).
  { unfold js. rewrite Forall_forall in *. intros k Hk. apply filter_In in Hk. apply Hks. tauto. }
  destruct (rebuild_same_live_set osz (mark_all ks es) js Hosz (mark_all_wf osz ks es Hwf)
              (mark_all_sorted ks es Hs) (mark_all_offsets ks es Hnz) Hjs) as [A _].
  cbv zeta in A. rewrite A.
  assert (L : live_of_sorted osz (encode osz (mark_all ks es)) = live_spec ks es).
  { unfold live_of_sorted. rewrite walk_encode by auto using mark_all_wf.
    fold live. rewrite filter_live_mark_all. reflexivity. }
  rewrite L. split; [|reflexivity].
  unfold live_spec. f_equal. rewrite <- (filter_live_mark_all ks es).
  apply filter_ext_in. intros x Hx. unfold mark_all in Hx. apply in_map_iff in Hx.
  destruct Hx as [e [Hx Hin]]. subst x.
  destruct (in_keys ks (e_key e)) eqn:E.
  - rewrite live_tomb. reflexivity.
  - assert (Hn : in_keys js (e_key e) = false).
    { unfold in_keys, js in *.
      destruct (existsb (N.eqb (e_key e)) (filter (fun k => has_key k es) ks)) eqn:X; [|reflexivity].
      apply existsb_exists in X. destruct X as [k [Hk1 Hk2]]. apply filter_In in Hk1.
      assert (existsb (N.eqb (e_key e)) ks = true) by (apply existsb_exists; exists k; tauto).
      congruence. }
    rewrite Hn. apply andb_true_r.
Qed.

(* ---- SortedFileNeedleMap.Delete (repaired: .sdx writable, tombstone appended to the .idx) ---- *)
Definition is_live (k : N) (es : list entry) : bool :=
  match lookup k es with Some (_, s) => negb (size_is_deleted s) | None => false end.

Lemma write_at_end : forall (f b : list N), write_at f (file_size f) b = f ++ b.
Proof.
  intros f b. unfold write_at, file_size. rewrite Nat2N.id.
  rewrite firstn_all. rewrite skipn_all2 by lia. rewrite app_nil_r. reflexivity.
Qed.

(* FULL: a Delete on a freshly opened sorted-file map returns no error; when the key is live the
   .sdx becomes the index with exactly that entry tombstoned and the .idx grows by exactly one
   tombstone record; otherwise nothing changes *)
Theorem sorted_delete_full : forall osz es key idx off,
  ok_osz osz -> Forall (wf_entry osz) es -> sorted_keys es ->
  sorted_delete osz idx (file_size idx) (encode osz es) key off =
    if is_live key es
    then (ENone, idx ++ enc_entry osz {| e_key := key; e_off := off; e_size := tombstone |},
          file_size idx + entry_size osz, encode osz (set_deleted key es))
    else (ENone, idx, file_size idx, encode osz es).
Proof.
  intros osz es key idx off Hosz Hwf Hs. unfold sorted_delete, is_live, file_size.
  pose proof (search_sorted_spec osz es key Hosz Hwf Hs) as Hsp.
  pose proof (search_lookup osz es key Hosz Hwf Hs) as Hl.
  destruct (search_sorted osz (encode osz es) (N.of_nat (length (encode osz es))) key) as [m o s| |];
    simpl in Hl; rewrite <- Hl.
  - destruct (size_is_deleted s); [reflexivity|]. cbn [negb].
    rewrite search_mark_true by assumption.
    assert (Hk : has_key key es = true).
    { apply has_key_in. apply nth_error_In in Hsp. change key with (e_key {| e_key := key; e_off := o; e_size := s |}).
      apply in_map. exact Hsp. }
    rewrite Hk. fold (file_size idx). rewrite write_at_end. reflexivity.
  - reflexivity.
  - contradiction.
Qed.

(* and what the map then serves: the deleted key reads as deleted, every other key as before *)
Theorem sorted_delete_reads : forall osz es key idx off k,
  ok_osz osz -> Forall (wf_entry osz) es -> sorted_keys es ->
  let '(err, _, _, sdx') := sorted_delete osz idx (file_size idx) (encode osz es) key off in
  err = ENone /\ sorted_get osz sdx' k =
    (if (k =? key) && is_live key es then option_map (fun v => (fst v, tombstone)) (lookup k es)
     else lookup k es).
Proof.
  intros osz es key idx off k Hosz Hwf Hs. rewrite sorted_delete_full by assumption.
  assert (G : forall es', Forall (wf_entry osz) es' -> sorted_keys es' ->
              sorted_get osz (encode osz es') k = lookup k es').
  { intros es' W S. unfold sorted_get, file_size. pose proof (search_lookup osz es' k Hosz W S) as H.
    destruct (search_sorted osz (encode osz es') (N.of_nat (length (encode osz es'))) k); simpl in H; rewrite <- H; reflexivity. }
  destruct (is_live key es) eqn:L; split; try reflexivity.
  - rewrite G by auto using set_deleted_wf, set_deleted_sorted. rewrite lookup_set_deleted.
    rewrite andb_true_r. reflexivity.
  - rewrite andb_false_r. apply G; assumption.
Qed.

Definition witness_es : list entry := [ {| e_key := 1; e_off := 2; e_size := 20%Z |} ].
(* the former failing witness, now deleted for real *)
Lemma sorted_delete_witness :
  sorted_delete 4 (encode 4 witness_es) (file_size (encode 4 witness_es)) (encode 4 witness_es) 1 3 =
    (ENone, encode 4 witness_es ++ enc_entry 4 {| e_key := 1; e_off := 3; e_size := tombstone |}, 32,
     encode 4 [ {| e_key := 1; e_off := 2; e_size := tombstone |} ]).
Proof. vm_compute. reflexivity. Qed.
