(* C32: the raw-string parser of model/HttpRange.v (the model of parseRange on the
   header text) agrees with the structured parser on every printed header. *)
From Coq Require Import List NArith ZArith Bool String Ascii Lia.
From Coq Require Import ZifyBool ZifyN ZifyNat.
From SW Require Import model.HttpRange proof.HttpRangeProofs.
Import ListNotations.
Local Open Scope Z_scope.
Ltac Zify.zify_post_hook ::= Z.div_mod_to_equations.

(* ------------------------------------------------------------------ *)
(* character classes *)
Fixpoint sall (p : ascii -> bool) (s : string) : bool :=
  match s with EmptyString => true | String c s' => p c && sall p s' end.

Definition isdig (c : ascii) : bool := match digit_val c with Some _ => true | None => false end.
(* characters of a printed spec: digits and '-' *)
Definition okc (c : ascii) : bool := isdig c || Ascii.eqb c c_dash.

Lemma sall_app : forall p a b, sall p (append a b) = sall p a && sall p b.
Proof. induction a as [|c a IH]; intros b; simpl; auto. rewrite IH. apply andb_assoc. Qed.

Lemma sall_impl : forall (p q : ascii -> bool) s, (forall c, p c = true -> q c = true) -> sall p s = true -> sall q s = true.
Proof.
  induction s as [|c s IH]; intros Hpq H; simpl in *; auto.
  apply andb_true_iff in H. destruct H as [H1 H2]. rewrite (Hpq c H1), IH; auto.
Qed.

Lemma digit_char_spec : forall d, (d < 10)%N ->
  digit_val (digit_char d) = Some (Z.of_N d).
Proof.
  intros d H.
  assert (E : d = 0%N \/ d = 1%N \/ d = 2%N \/ d = 3%N \/ d = 4%N \/ d = 5%N \/ d = 6%N \/ d = 7%N \/ d = 8%N \/ d = 9%N) by lia.
  repeat (destruct E as [E|E]; [subst; reflexivity|]). subst; reflexivity.
Qed.

Lemma isdig_digit_char : forall d, (d < 10)%N -> isdig (digit_char d) = true.
Proof. intros d H. unfold isdig. rewrite digit_char_spec by assumption. reflexivity. Qed.

(* a digit is none of the characters the parser looks for *)
Lemma isdig_neq : forall c x, isdig c = true -> isdig x = false -> Ascii.eqb c x = false.
Proof.
  intros c x Hc Hx. destruct (Ascii.eqb c x) eqn:E; auto.
  apply Ascii.eqb_eq in E. subst. congruence.
Qed.
Lemma isdig_not_space : forall c, isdig c = true -> is_space c = false.
Proof.
  intros c H. unfold isdig, digit_val in H. unfold is_space.
  destruct (Nat.leb 48 (nat_of_ascii c) && Nat.leb (nat_of_ascii c) 57) eqn:E; [|discriminate].
  apply andb_true_iff in E. destruct E as [E1 E2].
  apply Nat.leb_le in E1. apply Nat.leb_le in E2.
  destruct (Nat.eqb (nat_of_ascii c) 32) eqn:F1.
  - apply Nat.eqb_eq in F1. lia.
  - destruct (Nat.leb (nat_of_ascii c) 13) eqn:F2.
    + apply Nat.leb_le in F2. lia.
    + rewrite andb_false_r. reflexivity.
Qed.
Lemma okc_not_space : forall c, okc c = true -> is_space c = false.
Proof.
  intros c H. unfold okc in H. apply orb_true_iff in H. destruct H as [H|H].
  - apply isdig_not_space; assumption.
  - apply Ascii.eqb_eq in H. subst. reflexivity.
Qed.
Lemma okc_not_comma : forall c, okc c = true -> Ascii.eqb c c_comma = false.
Proof.
  intros c H. unfold okc in H. apply orb_true_iff in H. destruct H as [H|H].
  - apply isdig_neq; auto.
  - apply Ascii.eqb_eq in H. subst. reflexivity.
Qed.

(* ------------------------------------------------------------------ *)
(* decimal printing and strconv.ParseInt are inverse *)
Lemma print_digits_all : forall fuel n acc, sall isdig acc = true -> sall isdig (print_digits fuel n acc) = true.
Proof.
  induction fuel as [|f IH]; intros n acc H; simpl; auto.
  assert (Hd : sall isdig (String (digit_char (n mod 10)) acc) = true).
  { simpl. rewrite isdig_digit_char by (apply N.mod_lt; lia). assumption. }
  destruct (n / 10 =? 0)%N; auto.
Qed.

Lemma print_digits_nonempty : forall fuel n acc, str_empty (print_digits (S fuel) n acc) = false.
Proof.
  induction fuel as [|f IH]; intros n acc.
  - simpl. destruct (n / 10 =? 0)%N; reflexivity.
  - change (print_digits (S (S f)) n acc) with
      (if (n / 10 =? 0)%N then String (digit_char (n mod 10)) acc
       else print_digits (S f) (n / 10) (String (digit_char (n mod 10)) acc)).
    destruct (n / 10 =? 0)%N; [reflexivity|apply IH].
Qed.

Lemma parse_digits_print : forall f n acc, (n < 2 ^ N.of_nat (S f))%N ->
  exists D : Z, 0 <= D /\ forall k, parse_digits (print_digits (S f) n acc) k = parse_digits acc (k * 10 ^ D + Z.of_N n).
Proof.
  induction f as [|f IH]; intros n acc Hn.
  - (* n < 2 *)
    exists 1. split; [lia|]. intros k. simpl.
    assert (E : (n / 10 = 0)%N) by (change (2 ^ N.of_nat 1)%N with 2%N in Hn; lia).
    rewrite E. simpl. rewrite digit_char_spec by (apply N.mod_lt; lia).
    f_equal. change (2 ^ N.of_nat 1)%N with 2%N in Hn. lia.
  - change (print_digits (S (S f)) n acc) with
      (if (n / 10 =? 0)%N then String (digit_char (n mod 10)) acc
       else print_digits (S f) (n / 10) (String (digit_char (n mod 10)) acc)).
    destruct (n / 10 =? 0)%N eqn:E.
    + exists 1. split; [lia|]. intros k. simpl. rewrite digit_char_spec by (apply N.mod_lt; lia).
      f_equal. lia.
    + assert (Hn' : (n / 10 < 2 ^ N.of_nat (S f))%N).
      { replace (N.of_nat (S (S f))) with (N.succ (N.of_nat (S f))) in Hn by lia.
        rewrite N.pow_succ_r' in Hn. lia. }
      destruct (IH (n / 10)%N (String (digit_char (n mod 10)) acc) Hn') as [D [HD Hk]].
      exists (D + 1). split; [lia|]. intros k. rewrite Hk. simpl.
      rewrite digit_char_spec by (apply N.mod_lt; lia).
      f_equal. rewrite Z.pow_add_r by lia. lia.
Qed.

Lemma print_N_fuel : forall n, (n < 2 ^ N.of_nat (S (N.to_nat (N.log2 n))))%N.
Proof.
  intros n. replace (N.of_nat (S (N.to_nat (N.log2 n)))) with (N.succ (N.log2 n)) by lia.
  destruct (N.eq_dec n 0) as [->|Hn]; [reflexivity|].
  apply N.log2_spec. lia.
Qed.

Lemma parse_digits_print_N : forall n, parse_digits (print_N n) 0 = Some (Z.of_N n).
Proof.
  intros n. unfold print_N.
  destruct (parse_digits_print (N.to_nat (N.log2 n)) n EmptyString (print_N_fuel n)) as [D [HD Hk]].
  rewrite Hk. simpl. f_equal.
Qed.

Lemma print_N_all : forall n, sall isdig (print_N n) = true.
Proof. intros. apply print_digits_all. reflexivity. Qed.
Lemma print_N_nonempty : forall n, str_empty (print_N n) = false.
Proof. intros. apply print_digits_nonempty. Qed.

Lemma parse_int_print_N : forall n, Z.of_N n <= int64_max -> parse_int (print_N n) = Some (Z.of_N n).
Proof.
  intros n Hn. pose proof (print_N_all n) as Ha. pose proof (print_N_nonempty n) as Hne.
  pose proof (parse_digits_print_N n) as Hp.
  destruct (print_N n) as [|c s] eqn:E; [discriminate|].
  unfold parse_int. simpl in Ha. apply andb_true_iff in Ha. destruct Ha as [Hc Hs].
  rewrite (isdig_neq c c_plus Hc eq_refl), (isdig_neq c c_dash Hc eq_refl).
  cbn [str_empty]. rewrite Hp. cbv zeta.
  pose proof int64_min_val. destruct ((int64_min <=? Z.of_N n) && (Z.of_N n <=? int64_max)) eqn:F; [reflexivity|lia].
Qed.

(* ------------------------------------------------------------------ *)
(* TrimSpace, Index, Split on printed specs *)
Lemma ltrim_nospace : forall s, sall (fun c => negb (is_space c)) s = true -> ltrim s = s.
Proof.
  intros [|c s] H; simpl in *; auto.
  apply andb_true_iff in H. destruct H as [H _]. apply negb_true_iff in H. rewrite H. reflexivity.
Qed.
Lemma rtrim_nospace : forall s, sall (fun c => negb (is_space c)) s = true -> rtrim s = s.
Proof.
  induction s as [|c s IH]; intros H; simpl in *; auto.
  apply andb_true_iff in H. destruct H as [H1 H2]. apply negb_true_iff in H1.
  rewrite IH by assumption. rewrite H1. reflexivity.
Qed.
Lemma trim_okc : forall s, sall okc s = true -> trim s = s.
Proof.
  intros s H. assert (H' : sall (fun c => negb (is_space c)) s = true).
  { eapply sall_impl; [|exact H]. intros c Hc. rewrite (okc_not_space c Hc). reflexivity. }
  unfold trim. rewrite ltrim_nospace by assumption. apply rtrim_nospace. assumption.
Qed.
Lemma isdig_okc : forall s, sall isdig s = true -> sall okc s = true.
Proof. intros s. apply sall_impl. intros c H. unfold okc. rewrite H. reflexivity. Qed.

Lemma cut_at_digits : forall a b, sall isdig a = true ->
  cut_at c_dash (append a (String c_dash b)) = Some (a, b).
Proof.
  induction a as [|c a IH]; intros b H; simpl in *.
  - reflexivity.
  - apply andb_true_iff in H. destruct H as [H1 H2].
    rewrite (isdig_neq c c_dash H1 eq_refl). rewrite IH by assumption. reflexivity.
Qed.

Lemma split_no_sep : forall s, sall okc s = true -> split_on c_comma s = [s].
Proof.
  induction s as [|c s IH]; intros H; simpl in *; auto.
  apply andb_true_iff in H. destruct H as [H1 H2].
  rewrite (okc_not_comma c H1), IH by assumption. reflexivity.
Qed.
Lemma split_app_sep : forall a r, sall okc a = true ->
  split_on c_comma (append a (String c_comma r)) = a :: split_on c_comma r.
Proof.
  induction a as [|c a IH]; intros r H; simpl in *.
  - reflexivity.
  - apply andb_true_iff in H. destruct H as [H1 H2].
    rewrite (okc_not_comma c H1), IH by assumption. reflexivity.
Qed.
Lemma split_join : forall l, l <> [] -> (forall x, In x l -> sall okc x = true) ->
  split_on c_comma (join_comma l) = l.
Proof.
  induction l as [|x l IH]; intros Hne H; [congruence|].
  destruct l as [|y l].
  - simpl. apply split_no_sep. apply H. left. reflexivity.
  - change (join_comma (x :: y :: l)) with (append x (String c_comma (join_comma (y :: l)))).
    rewrite split_app_sep by (apply H; left; reflexivity).
    f_equal. apply IH; [congruence|]. intros z Hz. apply H. right. assumption.
Qed.

(* ------------------------------------------------------------------ *)
(* one spec *)
Definition spec_small (sp : rspec) : Prop :=
  match sp with
  | RClosed a b => Z.of_N a <= int64_max /\ Z.of_N b <= int64_max
  | RFrom a => Z.of_N a <= int64_max
  | RSuffix n => Z.of_N n <= int64_max
  end.

Lemma print_spec_okc : forall sp, sall okc (print_spec sp) = true.
Proof.
  intros [a b|a|n]; unfold print_spec.
  - rewrite sall_app. simpl. rewrite !isdig_okc by apply print_N_all. reflexivity.
  - rewrite sall_app. simpl. rewrite isdig_okc by apply print_N_all. reflexivity.
  - simpl. rewrite isdig_okc by apply print_N_all. reflexivity.
Qed.
Lemma print_spec_nonempty : forall sp, str_empty (print_spec sp) = false.
Proof.
  intros [a b|a|n]; unfold print_spec.
  - pose proof (print_N_nonempty a). destruct (print_N a); [discriminate|reflexivity].
  - pose proof (print_N_nonempty a). destruct (print_N a); [discriminate|reflexivity].
  - reflexivity.
Qed.

Lemma parse_one_print : forall sp size, 0 <= size <= int64_max -> spec_small sp ->
  parse_one (print_spec sp) size = parse_spec sp size.
Proof.
  intros sp size Hs Hsm. pose proof int64_min_val as Emin. pose proof int64_max_val as Emax.
  destruct sp as [a b|a|n]; unfold print_spec, parse_one, parse_spec; cbv zeta.
  - destruct Hsm as [Ha Hb].
    rewrite cut_at_digits by apply print_N_all.
    rewrite !trim_okc by (apply isdig_okc, print_N_all).
    rewrite !print_N_nonempty. rewrite !parse_int_print_N by assumption.
    replace ((Z.of_N a >? size) || (Z.of_N a <? 0)) with (Z.of_N a >? size) by lia.
    reflexivity.
  - rewrite cut_at_digits by apply print_N_all.
    rewrite trim_okc by (apply isdig_okc, print_N_all).
    rewrite print_N_nonempty. rewrite parse_int_print_N by assumption.
    replace ((Z.of_N a >? size) || (Z.of_N a <? 0)) with (Z.of_N a >? size) by lia.
    reflexivity.
  - simpl cut_at. cbn [trim ltrim rtrim str_empty].
    rewrite trim_okc by (apply isdig_okc, print_N_all).
    rewrite parse_int_print_N by assumption.
    set (i := if Z.of_N n >? size then size else Z.of_N n).
    assert (Hi : 0 <= i <= size) by (subst i; destruct (Z.of_N n >? size) eqn:E; lia).
    rewrite wrap64_sub_sub by lia. rewrite wrap64_id by lia. reflexivity.
Qed.

Lemma parse_items_print : forall sps size, 0 <= size <= int64_max -> (forall sp, In sp sps -> spec_small sp) ->
  parse_items (map print_spec sps) size = parse_specs sps size.
Proof.
  induction sps as [|sp sps IH]; intros size Hs Hsm; simpl; auto.
  rewrite trim_okc by apply print_spec_okc. rewrite print_spec_nonempty.
  rewrite parse_one_print by (auto; apply Hsm; left; reflexivity).
  rewrite IH by (auto; intros; apply Hsm; right; assumption). reflexivity.
Qed.

(* parseRange on the text of a header = the structured parser on its specs *)
Theorem parse_range_print : forall sps size, 0 <= size <= int64_max ->
  (forall sp, In sp sps -> spec_small sp) ->
  parse_range (print_header sps) size = parse_specs sps size.
Proof.
  intros sps size Hs Hsm. unfold parse_range, print_header.
  change (strip_prefix "bytes=" (append "bytes=" (join_comma (map print_spec sps))))
    with (Some (join_comma (map print_spec sps))).
  destruct sps as [|sp sps].
  - reflexivity.
  - rewrite split_join.
    + apply parse_items_print; assumption.
    + discriminate.
    + intros x Hx. apply in_map_iff in Hx. destruct Hx as [s0 [<- _]]. apply print_spec_okc.
Qed.

Lemma print_header_nonempty : forall sps, str_empty (print_header sps) = false.
Proof. reflexivity. Qed.

(* ------------------------------------------------------------------ *)
(* C32 on the header text *)

(* structured headers, through the text parser *)
Theorem exact_partial : forall d sps enc, blen d <= int64_max ->
  (forall sp, In sp sps -> spec_small sp) ->
  trig_specs sps (blen d) = None ->
  spec_ok d sps (process_range (print_header sps) d enc) = true.
Proof.
  intros d sps enc Hm Hsm Ht. unfold process_range. rewrite print_header_nonempty.
  rewrite parse_range_print; [|split; [apply blen_nonneg|assumption]|assumption].
  apply exact_specs_partial. assumption.
Qed.

(* the single-range forms on the header text *)
Theorem parse_range_closed : forall a b size, 0 <= size <= int64_max -> Z.of_N b <= int64_max ->
  (a <= b)%N -> Z.of_N a < size ->
  parse_range (print_header [RClosed a b]) size = Some [(Z.of_N a, Z.min (Z.of_N b) (size - 1) - Z.of_N a + 1)].
Proof.
  intros a b size Hs Hb Hab Ha. rewrite parse_range_print; auto.
  - apply parse_closed; assumption.
  - intros sp [<-|[]]. simpl. lia.
Qed.
Theorem parse_range_from : forall a size, 0 <= size <= int64_max -> Z.of_N a < size ->
  parse_range (print_header [RFrom a]) size = Some [(Z.of_N a, size - Z.of_N a)].
Proof.
  intros a size Hs Ha. rewrite parse_range_print; auto.
  - apply parse_from; assumption.
  - intros sp [<-|[]]. simpl. lia.
Qed.
Theorem parse_range_suffix : forall n size, 0 <= size <= int64_max -> Z.of_N n <= int64_max ->
  parse_range (print_header [RSuffix n]) size = Some [(size - Z.min (Z.of_N n) size, Z.min (Z.of_N n) size)].
Proof.
  intros n size Hs Hn. rewrite parse_range_print; auto.
  - apply parse_suffix; lia.
  - intros sp [<-|[]]. simpl. lia.
Qed.
Theorem parse_range_beyond : forall a b size, 0 <= size <= int64_max ->
  Z.of_N a <= int64_max -> Z.of_N b <= int64_max -> size < Z.of_N a ->
  parse_range (print_header [RClosed a b]) size = None.
Proof.
  intros a b size Hs Ha Hb H. rewrite parse_range_print; auto.
  - apply parse_start_beyond; assumption.
  - intros sp [<-|[]]. simpl. lia.
Qed.

(* no Range header: 200 with everything; HEAD: 200, no body *)
Theorem no_range_full : forall d enc, full_200 d (process_range "" d enc) = true.
Proof.
  intros. unfold process_range, full_200. cbn [str_empty r_status r_body r_cl r_cr N.eqb Pos.eqb andb].
  unfold body_eqb, oz_eqb, ocr_eqb. rewrite blob_eqb_refl, Z.eqb_refl. reflexivity.
Qed.
Theorem head_full : forall hdr d enc, head_ok d (write_response_content true hdr d enc) = true.
Proof.
  intros. unfold write_response_content, head_ok. cbn [r_status r_body r_cl N.eqb Pos.eqb andb].
  unfold body_eqb, oz_eqb. rewrite Z.eqb_refl. reflexivity.
Qed.

(* ------------------------------------------------------------------ *)
(* gzip negotiation *)
Theorem negotiate_representation : forall s ae,
  fst (negotiate s ae) = representation s (snd (negotiate s ae)).
Proof.
  intros s ae. unfold negotiate, representation.
  destruct (st_flag s); [|reflexivity].
  destruct (accept_has_gzip ae && is_gzipped (st_data s)) eqn:E; [reflexivity|].
  destruct (is_gzipped (st_data s)); reflexivity.
Qed.

Theorem gzip_partial : forall s ae, trig_gzip s ae = false ->
  gzip_ok s ae (snd (negotiate s ae)) = true.
Proof.
  intros s ae Ht. unfold negotiate, gzip_ok, trig_gzip in *.
  destruct (st_flag s); [|reflexivity].
  destruct (accept_has_gzip ae) eqn:Ea; destruct (is_gzipped (st_data s)) eqn:Eg; simpl in *; try reflexivity.
  apply negb_false_iff in Ht. rewrite Ht. reflexivity.
Qed.

(* gzip is never chosen unless the blob is stored compressed and the text "gzip" occurs *)
Theorem gzip_needs_flag : forall s ae, snd (negotiate s ae) = true ->
  st_flag s = true /\ is_gzipped (st_data s) = true /\ accept_has_gzip ae = true.
Proof.
  intros s ae H. unfold negotiate in H.
  destruct (st_flag s); [|discriminate].
  destruct (accept_has_gzip ae) eqn:Ea; destruct (is_gzipped (st_data s)) eqn:Eg; simpl in H; try discriminate; auto.
Qed.

(* the whole GET, structured header *)
Theorem get_partial : forall s ae sps,
  blen (st_data s) <= int64_max -> blen (st_plain s) <= int64_max ->
  (forall sp, In sp sps -> spec_small sp) ->
  trig_gzip s ae = false ->
  trig_specs sps (blen (fst (negotiate s ae))) = None ->
  let fr := get_or_head false s ae (print_header sps) in
  gzip_ok s ae (f_gzip fr) = true /\
  spec_ok (representation s (f_gzip fr)) sps (f_resp fr) = true.
Proof.
  intros s ae sps H1 H2 Hsm Hg Ht. unfold get_or_head.
  pose proof (negotiate_representation s ae) as Hr.
  pose proof (gzip_partial s ae Hg) as Hgz.
  destruct (negotiate s ae) as [rep enc] eqn:En. simpl in *. subst rep.
  split; [assumption|]. unfold write_response_content.
  apply exact_partial; auto.
  unfold representation. destruct enc; [assumption|].
  destruct (st_flag s && is_gzipped (st_data s)); assumption.
Qed.

(* the whole GET, any header text *)
Theorem get_raw_partial : forall s ae hdr,
  blen (st_data s) <= int64_max -> blen (st_plain s) <= int64_max ->
  trig_gzip s ae = false ->
  trig_parsed (parse_range hdr (blen (fst (negotiate s ae)))) (blen (fst (negotiate s ae))) = None ->
  let fr := get_or_head false s ae hdr in
  gzip_ok s ae (f_gzip fr) = true /\
  self_consistent (representation s (f_gzip fr)) (f_resp fr) = true.
Proof.
  intros s ae hdr H1 H2 Hg Ht. unfold get_or_head.
  pose proof (negotiate_representation s ae) as Hr.
  pose proof (gzip_partial s ae Hg) as Hgz.
  destruct (negotiate s ae) as [rep enc] eqn:En. simpl in *. subst rep.
  split; [assumption|]. unfold write_response_content.
  apply raw_consistent_partial; auto.
  unfold representation. destruct enc; [assumption|].
  destruct (st_flag s && is_gzipped (st_data s)); assumption.
Qed.

(* ------------------------------------------------------------------ *)
(* refutations of the full statements: concrete witnesses (the known findings) *)
Definition abcdef : blob := [97; 98; 99; 100; 101; 102]%N.

(* k=0: "Range: bytes=" — 200 with an empty body *)
Theorem refuted_empty_list :
  spec_ok abcdef [] (process_range (print_header []) abcdef false) = false /\
  print_header [] = "bytes="%string /\
  process_range "bytes=" abcdef false = {| r_status := 200; r_cr := None; r_cl := None; r_body := Plain [] 0 |}.
Proof. vm_compute. auto. Qed.

(* k=1: "Range: bytes=0-,0-" — the sum exceeds the size: 200 with an empty body *)
Theorem refuted_oversize :
  spec_ok abcdef [RFrom 0; RFrom 0] (process_range (print_header [RFrom 0; RFrom 0]) abcdef false) = false /\
  process_range "bytes=0-,0-" abcdef false = {| r_status := 200; r_cr := None; r_cl := None; r_body := Plain [] 0 |}.
Proof. vm_compute. auto. Qed.

(* k=2: "Range: bytes=6-" on 6 bytes — 206 with zero bytes and Content-Range "bytes 6-5/6" *)
Theorem refuted_zero_length :
  spec_ok abcdef [RFrom 6] (process_range (print_header [RFrom 6]) abcdef false) = false /\
  process_range "bytes=6-" abcdef false =
    {| r_status := 206; r_cr := Some (6, 5, 6); r_cl := Some 0; r_body := Plain [] 0 |}.
Proof. vm_compute. auto. Qed.

(* k=3: "Range: bytes=--2" — a negative suffix length is accepted: 206, Content-Length -2,
   Content-Range "bytes 8-5/6" *)
Theorem refuted_negative_suffix :
  self_consistent abcdef (process_range "bytes=--2" abcdef false) = false /\
  process_range "bytes=--2" abcdef false =
    {| r_status := 206; r_cr := Some (8, 5, 6); r_cl := Some (-2); r_body := Plain [] 0 |}.
Proof. vm_compute. auto. Qed.

(* k=4: "Range: bytes=0-1,9-10" on 6 bytes — 416 although 0-1 is satisfiable *)
Theorem refuted_mixed :
  spec_ok abcdef [RClosed 0 1; RClosed 9 10] (process_range (print_header [RClosed 0 1; RClosed 9 10]) abcdef false) = false /\
  r_status (process_range "bytes=0-1,9-10" abcdef false) = 416%N /\
  ref_ranges [RClosed 0 1; RClosed 9 10] (blen abcdef) = [(0, 2)].
Proof. vm_compute. auto. Qed.

(* k=5: "Accept-Encoding: gzip;q=0" still gets Content-Encoding: gzip *)
Theorem refuted_gzip_q0 :
  let s := {| st_flag := true; st_data := [31; 139; 8; 0]%N; st_plain := [] |} in
  snd (negotiate s "gzip;q=0") = true /\ gzip_ok s "gzip;q=0" (snd (negotiate s "gzip;q=0")) = false.
Proof. vm_compute. auto. Qed.

(* the same inputs are inside the trigger sets *)
Theorem witnesses_triggered :
  trig_specs [] 6 = Some 0%N /\ trig_specs [RFrom 0; RFrom 0] 6 = Some 1%N /\
  trig_specs [RFrom 6] 6 = Some 2%N /\ trig_parsed (parse_range "bytes=--2" 6) 6 = Some 3%N /\
  trig_specs [RClosed 0 1; RClosed 9 10] 6 = Some 4%N /\
  trig_gzip {| st_flag := true; st_data := [31; 139; 8; 0]%N; st_plain := [] |} "gzip;q=0" = true.
Proof. vm_compute. repeat split. Qed.

(* non-vacuity: a multi-range request outside every trigger, and what it returns *)
Example exact_example :
  let d := abcdef in
  let sps := [RClosed 0 1; RSuffix 2; RClosed 3 3] in
  trig_specs sps (blen d) = None /\ print_header sps = "bytes=0-1,-2,3-3"%string /\
  process_range (print_header sps) d false =
    {| r_status := 206; r_cr := None; r_cl := Some 0;
       r_body := Multipart [((0, 1, 6), [97; 98]%N); ((4, 5, 6), [101; 102]%N); ((3, 3, 6), [100]%N)] |}.
Proof. vm_compute. auto. Qed.
Example gzip_example :
  let s := {| st_flag := true; st_data := [31; 139; 8; 0; 9]%N; st_plain := [104; 105]%N |} in
  trig_gzip s "deflate, gzip;q=0.5" = false /\
  get_or_head false s "deflate, gzip;q=0.5" "bytes=1-2" =
    {| f_resp := {| r_status := 206; r_cr := Some (1, 2, 5); r_cl := Some 2; r_body := Plain [139; 8]%N 0 |}; f_gzip := true |} /\
  get_or_head false s "identity" "bytes=1-2" =
    {| f_resp := {| r_status := 206; r_cr := Some (1, 1, 2); r_cl := Some 1; r_body := Plain [105]%N 0 |}; f_gzip := false |}.
Proof. vm_compute. auto. Qed.
