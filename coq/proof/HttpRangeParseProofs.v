(* C32: the raw-string parser of model/HttpRange.v (the model of parseRange on the header
   text) agrees with the structured parser on EVERY spelling of a list of specs: optional
   white space (all unicode.IsSpace runes) around the elements and around '-', an optional
   '+' and leading zeros before a number, empty elements; numbers of any size (those above
   int64 max make the header invalid).  Then the theorems of C32 on the header text. *)
From Coq Require Import List NArith ZArith Bool String Ascii Lia.
From Coq Require Import ZifyBool ZifyN ZifyNat.
From SW Require Import model.HttpRange proof.HttpRangeProofs.
Import ListNotations.
Local Open Scope Z_scope.
Ltac Zify.zify_post_hook ::= Z.div_mod_to_equations.

(* ------------------------------------------------------------------ *)
(* strings *)
Lemma app_nil_r_s : forall s, append s EmptyString = s.
Proof. induction s as [|c s IH]; simpl; [reflexivity|rewrite IH; reflexivity]. Qed.
Lemma app_assoc_s : forall a b c, append (append a b) c = append a (append b c).
Proof. induction a as [|x a IH]; intros b c; simpl; [reflexivity|rewrite IH; reflexivity]. Qed.

(* character classes *)
Fixpoint sall (p : ascii -> bool) (s : string) : bool :=
  match s with EmptyString => true | String c s' => p c && sall p s' end.

Definition isdig (c : ascii) : bool := match digit_val c with Some _ => true | None => false end.
(* an ASCII character that is not white space *)
Definition plainb (c : ascii) : bool := Nat.ltb (nat_of_ascii c) 128 && negb (is_space c).
(* neither ',' nor '-' *)
Definition nosep (c : ascii) : bool := negb (Ascii.eqb c c_comma) && negb (Ascii.eqb c c_dash).
Definition nocomma (c : ascii) : bool := negb (Ascii.eqb c c_comma).
(* characters of a number: digits and '+' *)
Definition numc (c : ascii) : bool := isdig c || Ascii.eqb c c_plus.

Lemma sall_app : forall p a b, sall p (append a b) = sall p a && sall p b.
Proof. induction a as [|c a IH]; intros b; simpl; auto. rewrite IH. apply andb_assoc. Qed.

Lemma sall_impl : forall (p q : ascii -> bool) s, (forall c, p c = true -> q c = true) -> sall p s = true -> sall q s = true.
Proof.
  induction s as [|c s IH]; intros Hpq H; simpl in *; auto.
  apply andb_true_iff in H. destruct H as [H1 H2]. rewrite (Hpq c H1), IH; auto.
Qed.

Lemma digit_char_spec : forall d, (d < 10)%N ->
  digit_val (digit_char d) = Some (Z.of_N d).
Proof.
  intros d H.
  assert (E : d = 0%N \/ d = 1%N \/ d = 2%N \/ d = 3%N \/ d = 4%N \/ d = 5%N \/ d = 6%N \/ d = 7%N \/ d = 8%N \/ d = 9%N) by lia.
  repeat (destruct E as [E|E]; [subst; reflexivity|]). subst; reflexivity.
Qed.

Lemma isdig_digit_char : forall d, (d < 10)%N -> isdig (digit_char d) = true.
Proof. intros d H. unfold isdig. rewrite digit_char_spec by assumption. reflexivity. Qed.

Lemma isdig_range : forall c, isdig c = true -> (48 <= nat_of_ascii c <= 57)%nat.
Proof.
  intros c H. unfold isdig, digit_val in H.
  destruct (Nat.leb 48 (nat_of_ascii c) && Nat.leb (nat_of_ascii c) 57) eqn:E; [|discriminate].
  apply andb_true_iff in E. destruct E as [E1 E2].
  apply Nat.leb_le in E1. apply Nat.leb_le in E2. lia.
Qed.

(* a digit is none of the characters the parser looks for *)
Lemma isdig_neq : forall c x, isdig c = true -> isdig x = false -> Ascii.eqb c x = false.
Proof.
  intros c x Hc Hx. destruct (Ascii.eqb c x) eqn:E; auto.
  apply Ascii.eqb_eq in E. subst. congruence.
Qed.
Lemma is_space_range : forall c, is_space c = true ->
  (nat_of_ascii c = 32 \/ 9 <= nat_of_ascii c <= 13)%nat.
Proof.
  intros c H. unfold is_space in H. apply orb_true_iff in H. destruct H as [H|H].
  - apply Nat.eqb_eq in H. lia.
  - apply andb_true_iff in H. destruct H as [H1 H2]. apply Nat.leb_le in H1. apply Nat.leb_le in H2. lia.
Qed.
Lemma not_space : forall c, (nat_of_ascii c <> 32 /\ ~ (9 <= nat_of_ascii c <= 13))%nat -> is_space c = false.
Proof.
  intros c H. destruct (is_space c) eqn:E; auto. apply is_space_range in E. lia.
Qed.
Lemma isdig_plain : forall c, isdig c = true -> plainb c = true.
Proof.
  intros c H. apply isdig_range in H. unfold plainb.
  rewrite not_space by lia. replace (Nat.ltb (nat_of_ascii c) 128) with true; [reflexivity|].
  symmetry. apply Nat.ltb_lt. lia.
Qed.
Lemma numc_plain : forall c, numc c = true -> plainb c = true.
Proof.
  intros c H. unfold numc in H. apply orb_true_iff in H. destruct H as [H|H].
  - apply isdig_plain; assumption.
  - apply Ascii.eqb_eq in H. subst. reflexivity.
Qed.
Lemma numc_nosep : forall c, numc c = true -> nosep c = true.
Proof.
  intros c H. unfold numc in H. apply orb_true_iff in H. destruct H as [H|H].
  - unfold nosep. rewrite (isdig_neq c c_comma H eq_refl), (isdig_neq c c_dash H eq_refl). reflexivity.
  - apply Ascii.eqb_eq in H. subst. reflexivity.
Qed.
Lemma plain_not_space : forall c, plainb c = true -> is_space c = false.
Proof. intros c H. unfold plainb in H. apply andb_true_iff in H. destruct H as [_ H]. apply negb_true_iff in H. exact H. Qed.
Lemma plain_low : forall c, plainb c = true -> (nat_of_ascii c < 128)%nat.
Proof. intros c H. unfold plainb in H. apply andb_true_iff in H. destruct H as [H _]. apply Nat.ltb_lt in H. exact H. Qed.

(* ------------------------------------------------------------------ *)
(* the multi-byte white-space runes: properties checked on the table *)
Definition first_high (u : string) : bool :=
  match u with String c _ => Nat.leb 128 (nat_of_ascii c) | EmptyString => false end.
Fixpoint ends_plain (s : string) : bool :=
  match s with
  | EmptyString => false
  | String c EmptyString => plainb c
  | String _ s' => ends_plain s'
  end.
Definition starts_plain (s : string) : bool :=
  match s with String c _ => plainb c | EmptyString => false end.

Lemma in_multi_prop : forall (P : string -> bool), forallb P ws_multi = true ->
  forall u, in_multi u = true -> P u = true.
Proof.
  intros P HP u Hu. unfold in_multi in Hu. apply existsb_exists in Hu.
  destruct Hu as [x [Hin Heq]]. apply String.eqb_eq in Heq. subst x.
  rewrite forallb_forall in HP. apply HP. assumption.
Qed.

Lemma multi_first_high : forall u, in_multi u = true -> first_high u = true.
Proof. apply in_multi_prop. vm_compute. reflexivity. Qed.
Lemma multi_not_ends_plain : forall u, in_multi u = true -> negb (ends_plain u) = true.
Proof. apply in_multi_prop. vm_compute. reflexivity. Qed.
Lemma multi_rtrim : forall u, in_multi u = true -> str_empty (rtrim u) = true.
Proof. apply in_multi_prop. vm_compute. reflexivity. Qed.
Lemma multi_nosep : forall u, in_multi u = true -> sall nosep u = true.
Proof. apply in_multi_prop. vm_compute. reflexivity. Qed.

Lemma multi_ltrim : forall u, In u ws_multi -> forall s, ltrim (append u s) = ltrim s.
Proof.
  assert (H : Forall (fun u => forall s, ltrim (append u s) = ltrim s) ws_multi).
  { unfold ws_multi. repeat constructor; intros s; reflexivity. }
  intros u Hu. rewrite Forall_forall in H. apply H. assumption.
Qed.
Lemma in_multi_In : forall u, in_multi u = true -> In u ws_multi.
Proof.
  intros u Hu. unfold in_multi in Hu. apply existsb_exists in Hu.
  destruct Hu as [x [Hin Heq]]. apply String.eqb_eq in Heq. subst x. assumption.
Qed.

Lemma in_multi_plain_first : forall c s, plainb c = true -> in_multi (String c s) = false.
Proof.
  intros c s H. destruct (in_multi (String c s)) eqn:E; auto.
  apply multi_first_high in E. unfold first_high in E. apply Nat.leb_le in E. apply plain_low in H. lia.
Qed.

(* ------------------------------------------------------------------ *)
(* TrimSpace *)

Lemma ltrim_plain : forall s, starts_plain s = true -> ltrim s = s.
Proof.
  intros [|c1 s1] H; [discriminate|]. simpl in H.
  cbn [ltrim]. rewrite (plain_not_space c1 H).
  destruct s1 as [|c2 s2]; [reflexivity|].
  rewrite (in_multi_plain_first c1 _ H).
  destruct s2 as [|c3 s3]; [reflexivity|].
  rewrite (in_multi_plain_first c1 _ H). reflexivity.
Qed.

Lemma rune_ltrim : forall r, is_space_rune r = true -> forall s, ltrim (append r s) = ltrim s.
Proof.
  intros r H s. unfold is_space_rune in H.
  destruct r as [|c [|c2 r2]].
  - discriminate.
  - cbn [append ltrim]. rewrite H. reflexivity.
  - apply multi_ltrim. apply in_multi_In. assumption.
Qed.
Lemma rune_rtrim : forall r, is_space_rune r = true -> rtrim r = EmptyString.
Proof.
  intros r H. unfold is_space_rune in H.
  destruct r as [|c [|c2 r2]].
  - reflexivity.
  - cbn [rtrim]. cbv zeta. cbn [is_space_rune]. rewrite H. reflexivity.
  - apply multi_rtrim in H. destruct (rtrim (String c (String c2 r2))); [reflexivity|discriminate].
Qed.
Lemma rune_nosep : forall r, is_space_rune r = true -> sall nosep r = true.
Proof.
  intros r H. unfold is_space_rune in H.
  destruct r as [|c [|c2 r2]].
  - reflexivity.
  - apply is_space_range in H. cbn [sall]. rewrite andb_true_r. unfold nosep.
    assert (E1 : Ascii.eqb c c_comma = false).
    { destruct (Ascii.eqb c c_comma) eqn:E; auto. apply Ascii.eqb_eq in E. subst. change (nat_of_ascii c_comma) with 44%nat in H. lia. }
    assert (E2 : Ascii.eqb c c_dash = false).
    { destruct (Ascii.eqb c c_dash) eqn:E; auto. apply Ascii.eqb_eq in E. subst. change (nat_of_ascii c_dash) with 45%nat in H. lia. }
    rewrite E1, E2. reflexivity.
  - apply multi_nosep. assumption.
Qed.

Lemma ws_ok_cons : forall r w, ws_ok (r :: w) = true -> is_space_rune r = true /\ ws_ok w = true.
Proof. intros r w H. unfold ws_ok in H. simpl in H. apply andb_true_iff in H. exact H. Qed.

Lemma ltrim_ws : forall w s, ws_ok w = true -> ltrim (append (ws_str w) s) = ltrim s.
Proof.
  induction w as [|r w IH]; intros s H; [reflexivity|].
  apply ws_ok_cons in H. destruct H as [Hr Hw].
  cbn [ws_str fold_right]. rewrite app_assoc_s. rewrite rune_ltrim by assumption. apply IH. assumption.
Qed.

Lemma rtrim_app_empty : forall u x, rtrim x = EmptyString -> rtrim (append u x) = rtrim u.
Proof.
  induction u as [|c u IH]; intros x H; simpl; [assumption|]. rewrite IH by assumption. reflexivity.
Qed.
Lemma rtrim_ws : forall w, ws_ok w = true -> rtrim (ws_str w) = EmptyString.
Proof.
  induction w as [|r w IH]; intros H; [reflexivity|].
  apply ws_ok_cons in H. destruct H as [Hr Hw].
  cbn [ws_str fold_right]. rewrite rtrim_app_empty by (apply IH; assumption). apply rune_rtrim. assumption.
Qed.
Lemma rtrim_app_ws : forall s w, ws_ok w = true -> rtrim (append s (ws_str w)) = rtrim s.
Proof. intros s w H. apply rtrim_app_empty. apply rtrim_ws. assumption. Qed.

Lemma rtrim_ends_plain : forall s, ends_plain s = true -> rtrim s = s.
Proof.
  induction s as [|c s IH]; intros H; [discriminate|].
  destruct s as [|c2 s2].
  - simpl in H. cbn [rtrim]. cbv zeta. cbn [is_space_rune]. rewrite (plain_not_space c H). reflexivity.
  - assert (H' : ends_plain (String c2 s2) = true) by exact H.
    change (rtrim (String c (String c2 s2))) with
      (let u := String c (rtrim (String c2 s2)) in if is_space_rune u then EmptyString else u).
    rewrite (IH H'). cbv zeta. cbn [is_space_rune].
    destruct (in_multi (String c (String c2 s2))) eqn:E; [|reflexivity].
    apply multi_not_ends_plain in E. apply negb_true_iff in E. congruence.
Qed.

Lemma ends_plain_app : forall a b, str_empty b = false -> ends_plain (append a b) = ends_plain b.
Proof.
  induction a as [|c a IH]; intros b Hb; [reflexivity|].
  cbn [append]. specialize (IH b Hb).
  destruct (append a b) as [|c2 s2] eqn:E.
  - destruct a; simpl in E; [subst; discriminate|discriminate].
  - cbn [ends_plain]. cbn [ends_plain] in IH. exact IH.
Qed.
Lemma starts_plain_app : forall a b, starts_plain a = true -> starts_plain (append a b) = true.
Proof. intros [|c a] b H; [discriminate|exact H]. Qed.
Lemma starts_plain_nonempty : forall s, starts_plain s = true -> str_empty s = false.
Proof. intros [|c s] H; [discriminate|reflexivity]. Qed.
Lemma ends_plain_nonempty : forall s, ends_plain s = true -> str_empty s = false.
Proof. intros [|c s] H; [discriminate|reflexivity]. Qed.

(* white space, a core that begins and ends with a plain character, white space *)
Lemma trim_framed : forall w1 core w4, ws_ok w1 = true -> ws_ok w4 = true ->
  starts_plain core = true -> ends_plain core = true ->
  trim (append (ws_str w1) (append core (ws_str w4))) = core.
Proof.
  intros w1 core w4 H1 H4 Hs He. unfold trim.
  rewrite ltrim_ws by assumption.
  rewrite ltrim_plain by (apply starts_plain_app; assumption).
  rewrite rtrim_app_ws by assumption. apply rtrim_ends_plain. assumption.
Qed.
Lemma trim_right_ws : forall core w, ws_ok w = true -> starts_plain core = true -> ends_plain core = true ->
  trim (append core (ws_str w)) = core.
Proof. intros core w Hw Hs He. apply (trim_framed [] core w); auto. Qed.
Lemma trim_left_ws : forall core w, ws_ok w = true -> starts_plain core = true -> ends_plain core = true ->
  trim (append (ws_str w) core) = core.
Proof.
  intros core w Hw Hs He. pose proof (trim_framed w core [] Hw eq_refl Hs He) as H.
  cbn [ws_str fold_right] in H. rewrite app_nil_r_s in H. exact H.
Qed.
Lemma trim_ws : forall w, ws_ok w = true -> trim (ws_str w) = EmptyString.
Proof.
  intros w H. unfold trim.
  rewrite <- (app_nil_r_s (ws_str w)). rewrite ltrim_ws by assumption. reflexivity.
Qed.

Lemma ws_nosep : forall w, ws_ok w = true -> sall nosep (ws_str w) = true.
Proof.
  induction w as [|r w IH]; intros H; [reflexivity|].
  apply ws_ok_cons in H. destruct H as [Hr Hw].
  cbn [ws_str fold_right]. rewrite sall_app, (rune_nosep r Hr). apply IH. assumption.
Qed.

(* ------------------------------------------------------------------ *)
(* decimal printing and strconv.ParseInt are inverse *)
Lemma print_digits_all : forall fuel n acc, sall isdig acc = true -> sall isdig (print_digits fuel n acc) = true.
Proof.
  induction fuel as [|f IH]; intros n acc H; simpl; auto.
  assert (Hd : sall isdig (String (digit_char (n mod 10)) acc) = true).
  { simpl. rewrite isdig_digit_char by (apply N.mod_lt; lia). assumption. }
  destruct (n / 10 =? 0)%N; auto.
Qed.

Lemma print_digits_nonempty : forall fuel n acc, str_empty (print_digits (S fuel) n acc) = false.
Proof.
  induction fuel as [|f IH]; intros n acc.
  - simpl. destruct (n / 10 =? 0)%N; reflexivity.
  - change (print_digits (S (S f)) n acc) with
      (if (n / 10 =? 0)%N then String (digit_char (n mod 10)) acc
       else print_digits (S f) (n / 10) (String (digit_char (n mod 10)) acc)).
    destruct (n / 10 =? 0)%N; [reflexivity|apply IH].
Qed.

Lemma parse_digits_print : forall f n acc, (n < 2 ^ N.of_nat (S f))%N ->
  exists D : Z, 0 <= D /\ forall k, parse_digits (print_digits (S f) n acc) k = parse_digits acc (k * 10 ^ D + Z.of_N n).
Proof.
  induction f as [|f IH]; intros n acc Hn.
  - (* n < 2 *)
    exists 1. split; [lia|]. intros k. simpl.
    assert (E : (n / 10 = 0)%N) by (change (2 ^ N.of_nat 1)%N with 2%N in Hn; lia).
    rewrite E. simpl. rewrite digit_char_spec by (apply N.mod_lt; lia).
    f_equal. change (2 ^ N.of_nat 1)%N with 2%N in Hn. lia.
  - change (print_digits (S (S f)) n acc) with
      (if (n / 10 =? 0)%N then String (digit_char (n mod 10)) acc
       else print_digits (S f) (n / 10) (String (digit_char (n mod 10)) acc)).
    destruct (n / 10 =? 0)%N eqn:E.
    + exists 1. split; [lia|]. intros k. simpl. rewrite digit_char_spec by (apply N.mod_lt; lia).
      f_equal. lia.
    + assert (Hn' : (n / 10 < 2 ^ N.of_nat (S f))%N).
      { replace (N.of_nat (S (S f))) with (N.succ (N.of_nat (S f))) in Hn by lia.
        rewrite N.pow_succ_r' in Hn. lia. }
      destruct (IH (n / 10)%N (String (digit_char (n mod 10)) acc) Hn') as [D [HD Hk]].
      exists (D + 1). split; [lia|]. intros k. rewrite Hk. simpl.
      rewrite digit_char_spec by (apply N.mod_lt; lia).
      f_equal. rewrite Z.pow_add_r by lia. lia.
Qed.

Lemma print_N_fuel : forall n, (n < 2 ^ N.of_nat (S (N.to_nat (N.log2 n))))%N.
Proof.
  intros n. replace (N.of_nat (S (N.to_nat (N.log2 n)))) with (N.succ (N.log2 n)) by lia.
  destruct (N.eq_dec n 0) as [->|Hn]; [reflexivity|].
  apply N.log2_spec. lia.
Qed.

Lemma parse_digits_print_N : forall n, parse_digits (print_N n) 0 = Some (Z.of_N n).
Proof.
  intros n. unfold print_N.
  destruct (parse_digits_print (N.to_nat (N.log2 n)) n EmptyString (print_N_fuel n)) as [D [HD Hk]].
  rewrite Hk. simpl. f_equal.
Qed.

Lemma print_N_all : forall n, sall isdig (print_N n) = true.
Proof. intros. apply print_digits_all. reflexivity. Qed.
Lemma print_N_nonempty : forall n, str_empty (print_N n) = false.
Proof. intros. apply print_digits_nonempty. Qed.

(* leading zeros *)
Lemma zeros_all : forall k s, sall isdig s = true -> sall isdig (zeros k s) = true.
Proof. induction k as [|k IH]; intros s H; simpl; auto. Qed.
Lemma zeros_nonempty : forall k s, str_empty s = false -> str_empty (zeros k s) = false.
Proof. intros [|k] s H; [assumption|reflexivity]. Qed.
Lemma parse_digits_zeros : forall k s, parse_digits (zeros k s) 0 = parse_digits s 0.
Proof. induction k as [|k IH]; intros s; simpl; auto. Qed.

(* a rendered number: '+'? 0* digits *)
Lemma render_num_numc : forall f n, sall numc (render_num f n) = true.
Proof.
  intros f n. unfold render_num.
  assert (H : sall numc (zeros (nf_zeros f) (print_N n)) = true).
  { eapply sall_impl; [|apply zeros_all, print_N_all]. intros c Hc. unfold numc. rewrite Hc. reflexivity. }
  destruct (nf_plus f); [simpl; exact H|exact H].
Qed.
Lemma sall_isdig_ends_plain : forall s, sall isdig s = true -> str_empty s = false -> ends_plain s = true.
Proof.
  induction s as [|c s IH]; intros H Hne; [discriminate|].
  simpl in H. apply andb_true_iff in H. destruct H as [H1 H2].
  destruct s as [|c2 s2]; [simpl; apply isdig_plain; assumption|].
  change (ends_plain (String c (String c2 s2))) with (ends_plain (String c2 s2)).
  apply IH; auto.
Qed.
Lemma render_num_ends_plain : forall f n, ends_plain (render_num f n) = true.
Proof.
  intros f n. unfold render_num.
  assert (H : ends_plain (zeros (nf_zeros f) (print_N n)) = true).
  { apply sall_isdig_ends_plain; [apply zeros_all, print_N_all|apply zeros_nonempty, print_N_nonempty]. }
  destruct (nf_plus f); [|exact H].
  change (String c_plus (zeros (nf_zeros f) (print_N n))) with (append (String c_plus EmptyString) (zeros (nf_zeros f) (print_N n))).
  rewrite ends_plain_app; [exact H|apply zeros_nonempty, print_N_nonempty].
Qed.
Lemma render_num_starts_plain : forall f n, starts_plain (render_num f n) = true.
Proof.
  intros f n. pose proof (render_num_numc f n) as H. pose proof (render_num_ends_plain f n) as He.
  destruct (render_num f n) as [|c s]; [discriminate|].
  simpl in H. apply andb_true_iff in H. destruct H as [H _]. simpl. apply numc_plain. assumption.
Qed.
Lemma render_num_nosep : forall f n, sall nosep (render_num f n) = true.
Proof. intros f n. eapply sall_impl; [|apply render_num_numc]. apply numc_nosep. Qed.

Lemma parse_int_digits : forall s v, sall isdig s = true -> str_empty s = false -> 0 <= v ->
  parse_digits s 0 = Some v ->
  parse_int s = if (v <=? int64_max) then Some v else None.
Proof.
  intros s v Ha Hne Hv Hp. destruct s as [|c s]; [discriminate|].
  unfold parse_int. simpl in Ha. apply andb_true_iff in Ha. destruct Ha as [Hc Hs].
  rewrite (isdig_neq c c_plus Hc eq_refl), (isdig_neq c c_dash Hc eq_refl).
  cbn [str_empty]. rewrite Hp. cbv zeta.
  pose proof int64_min_val.
  replace (int64_min <=? v) with true by lia. cbn [andb]. reflexivity.
Qed.

Lemma parse_int_render : forall f n,
  parse_int (render_num f n) = if num_big n then None else Some (Z.of_N n).
Proof.
  intros f n. unfold render_num, num_big.
  set (body := zeros (nf_zeros f) (print_N n)).
  assert (Ha : sall isdig body = true) by (apply zeros_all, print_N_all).
  assert (Hne : str_empty body = false) by (apply zeros_nonempty, print_N_nonempty).
  assert (Hp : parse_digits body 0 = Some (Z.of_N n)) by (unfold body; rewrite parse_digits_zeros; apply parse_digits_print_N).
  assert (Hres : parse_int body = if num_big n then None else Some (Z.of_N n)).
  { rewrite (parse_int_digits body (Z.of_N n) Ha Hne (N2Z.is_nonneg n) Hp). unfold num_big.
    destruct (Z.of_N n <=? int64_max) eqn:E; destruct (Z.of_N n >? int64_max) eqn:E2; try reflexivity; lia. }
  unfold num_big in Hres.
  destruct (nf_plus f); [|exact Hres].
  (* "+" body *)
  unfold parse_int. change (Ascii.eqb c_plus c_plus) with true. cbv iota beta.
  rewrite Hne, Hp. cbv zeta. pose proof int64_min_val.
  destruct (Z.of_N n >? int64_max) eqn:E.
  - replace ((int64_min <=? Z.of_N n) && (Z.of_N n <=? int64_max)) with false by lia. reflexivity.
  - replace ((int64_min <=? Z.of_N n) && (Z.of_N n <=? int64_max)) with true by lia. reflexivity.
Qed.

(* ------------------------------------------------------------------ *)
(* Index and Split *)
Lemma cut_at_nosep : forall a b, sall nosep a = true ->
  cut_at c_dash (append a (String c_dash b)) = Some (a, b).
Proof.
  induction a as [|c a IH]; intros b H; simpl in *.
  - reflexivity.
  - apply andb_true_iff in H. destruct H as [H1 H2].
    unfold nosep in H1. apply andb_true_iff in H1. destruct H1 as [_ H1]. apply negb_true_iff in H1.
    rewrite H1. rewrite IH by assumption. reflexivity.
Qed.

Lemma split_no_sep : forall s, sall nocomma s = true -> split_on c_comma s = [s].
Proof.
  induction s as [|c s IH]; intros H; simpl in *; auto.
  apply andb_true_iff in H. destruct H as [H1 H2]. unfold nocomma in H1. apply negb_true_iff in H1.
  rewrite H1, IH by assumption. reflexivity.
Qed.
Lemma split_app_sep : forall a r, sall nocomma a = true ->
  split_on c_comma (append a (String c_comma r)) = a :: split_on c_comma r.
Proof.
  induction a as [|c a IH]; intros r H; simpl in *.
  - reflexivity.
  - apply andb_true_iff in H. destruct H as [H1 H2]. unfold nocomma in H1. apply negb_true_iff in H1.
    rewrite H1, IH by assumption. reflexivity.
Qed.
Lemma split_join : forall l, l <> [] -> (forall x, In x l -> sall nocomma x = true) ->
  split_on c_comma (join_comma l) = l.
Proof.
  induction l as [|x l IH]; intros Hne H; [congruence|].
  destruct l as [|y l].
  - simpl. apply split_no_sep. apply H. left. reflexivity.
  - change (join_comma (x :: y :: l)) with (append x (String c_comma (join_comma (y :: l)))).
    rewrite split_app_sep by (apply H; left; reflexivity).
    f_equal. apply IH; [congruence|]. intros z Hz. apply H. right. assumption.
Qed.

Lemma nosep_nocomma : forall s, sall nosep s = true -> sall nocomma s = true.
Proof.
  intros s. apply sall_impl. intros c H. unfold nosep in H. apply andb_true_iff in H. destruct H as [H _]. exact H.
Qed.

(* ------------------------------------------------------------------ *)
(* one element *)

Lemma render_item_nocomma : forall it, item_ok it = true -> sall nocomma (render_item it) = true.
Proof.
  intros it H. destruct it as [w|w1 fa a w2 w3 fb b w4|w1 fa a w2 w3|w1 w3 fn n w4]; simpl in H;
    repeat (match goal with H : _ && _ = true |- _ => apply andb_true_iff in H; destruct H end);
    cbn [render_item]; repeat (rewrite sall_app || cbn [sall]);
    repeat (match goal with H : ws_ok ?w = true |- _ => rewrite (nosep_nocomma _ (ws_nosep w H)); clear H end);
    rewrite ?(nosep_nocomma _ (render_num_nosep _ _)); reflexivity.
Qed.

(* an element that carries a spec: what TrimSpace leaves and how parse_one reads it *)
Lemma parse_item_closed : forall w1 fa a w2 w3 fb b w4 size, 0 <= size <= int64_max ->
  item_ok (IClosed w1 fa a w2 w3 fb b w4) = true ->
  let ra := trim (render_item (IClosed w1 fa a w2 w3 fb b w4)) in
  str_empty ra = false /\ parse_one ra size = parse_spec64 (RClosed a b) size.
Proof.
  intros w1 fa a w2 w3 fb b w4 size Hs H. simpl in H.
  repeat (match goal with H : _ && _ = true |- _ => apply andb_true_iff in H; destruct H end).
  cbn [render_item]. cbv zeta.
  set (A := render_num fa a). set (B := render_num fb b).
  set (core := append (append A (ws_str w2)) (String c_dash (append (ws_str w3) B))).
  assert (HsA : starts_plain A = true) by apply render_num_starts_plain.
  assert (HeA : ends_plain A = true) by apply render_num_ends_plain.
  assert (HsB : starts_plain B = true) by apply render_num_starts_plain.
  assert (HeB : ends_plain B = true) by apply render_num_ends_plain.
  assert (Hsc : starts_plain core = true).
  { unfold core. apply starts_plain_app. apply starts_plain_app. assumption. }
  assert (Hec : ends_plain core = true).
  { unfold core. rewrite ends_plain_app by reflexivity.
    change (String c_dash (append (ws_str w3) B)) with (append (String c_dash (ws_str w3)) B).
    rewrite ends_plain_app by (apply ends_plain_nonempty; assumption). assumption. }
  rewrite trim_framed by assumption.
  split; [apply starts_plain_nonempty; assumption|].
  unfold parse_one, core.
  rewrite cut_at_nosep by (rewrite sall_app; unfold A; rewrite (render_num_nosep fa a), (ws_nosep w2) by assumption; reflexivity).
  rewrite trim_right_ws by assumption. rewrite trim_left_ws by assumption. cbv zeta.
  rewrite (starts_plain_nonempty A HsA), (starts_plain_nonempty B HsB).
  unfold A, B. rewrite !parse_int_render.
  unfold parse_spec64. cbn [spec_big].
  destruct (num_big a) eqn:Ea; [reflexivity|]. cbn [orb].
  unfold parse_spec. cbv zeta.
  replace ((Z.of_N a >? size) || (Z.of_N a <? 0)) with (Z.of_N a >? size) by lia.
  destruct (Z.of_N a >? size); [destruct (num_big b); reflexivity|].
  destruct (num_big b); reflexivity.
Qed.

Lemma parse_item_from : forall w1 fa a w2 w3 size, 0 <= size <= int64_max ->
  item_ok (IFrom w1 fa a w2 w3) = true ->
  let ra := trim (render_item (IFrom w1 fa a w2 w3)) in
  str_empty ra = false /\ parse_one ra size = parse_spec64 (RFrom a) size.
Proof.
  intros w1 fa a w2 w3 size Hs H. simpl in H.
  repeat (match goal with H : _ && _ = true |- _ => apply andb_true_iff in H; destruct H end).
  cbn [render_item]. cbv zeta.
  set (A := render_num fa a).
  set (core := append (append A (ws_str w2)) (String c_dash EmptyString)).
  assert (HsA : starts_plain A = true) by apply render_num_starts_plain.
  assert (HeA : ends_plain A = true) by apply render_num_ends_plain.
  assert (Hsc : starts_plain core = true).
  { unfold core. apply starts_plain_app. apply starts_plain_app. assumption. }
  assert (Hec : ends_plain core = true).
  { unfold core. rewrite ends_plain_app by reflexivity. reflexivity. }
  rewrite trim_framed by assumption.
  split; [apply starts_plain_nonempty; assumption|].
  unfold parse_one, core.
  rewrite cut_at_nosep by (rewrite sall_app; unfold A; rewrite (render_num_nosep fa a), (ws_nosep w2) by assumption; reflexivity).
  rewrite trim_right_ws by assumption. cbv zeta.
  rewrite (starts_plain_nonempty A HsA).
  unfold A. rewrite parse_int_render.
  unfold parse_spec64. cbn [spec_big].
  destruct (num_big a) eqn:Ea; [reflexivity|].
  unfold parse_spec. cbv zeta.
  replace ((Z.of_N a >? size) || (Z.of_N a <? 0)) with (Z.of_N a >? size) by lia.
  reflexivity.
Qed.

Lemma parse_item_suffix : forall w1 w3 fn n w4 size, 0 <= size <= int64_max ->
  item_ok (ISuffix w1 w3 fn n w4) = true ->
  let ra := trim (render_item (ISuffix w1 w3 fn n w4)) in
  str_empty ra = false /\ parse_one ra size = parse_spec64 (RSuffix n) size.
Proof.
  intros w1 w3 fn n w4 size Hs H. simpl in H.
  repeat (match goal with H : _ && _ = true |- _ => apply andb_true_iff in H; destruct H end).
  cbn [render_item]. cbv zeta.
  set (B := render_num fn n).
  set (core := String c_dash (append (ws_str w3) B)).
  assert (HsB : starts_plain B = true) by apply render_num_starts_plain.
  assert (HeB : ends_plain B = true) by apply render_num_ends_plain.
  assert (Hsc : starts_plain core = true) by reflexivity.
  assert (Hec : ends_plain core = true).
  { unfold core. change (String c_dash (append (ws_str w3) B)) with (append (String c_dash (ws_str w3)) B).
    rewrite ends_plain_app by (apply ends_plain_nonempty; assumption). assumption. }
  rewrite trim_framed by assumption.
  split; [reflexivity|].
  unfold parse_one, core. cbn [cut_at]. change (Ascii.eqb c_dash c_dash) with true. cbv iota.
  change (trim EmptyString) with EmptyString. cbv zeta. cbn [str_empty].
  rewrite trim_left_ws by assumption.
  unfold B. rewrite parse_int_render.
  unfold parse_spec64. cbn [spec_big].
  destruct (num_big n) eqn:En; [reflexivity|].
  unfold parse_spec. cbv zeta. unfold num_big in En.
  pose proof int64_min_val as Emin. pose proof int64_max_val as Emax.
  set (i := if Z.of_N n >? size then size else Z.of_N n).
  assert (Hi : 0 <= i <= size) by (subst i; destruct (Z.of_N n >? size) eqn:E; lia).
  rewrite wrap64_sub_sub by lia. rewrite wrap64_id by lia. reflexivity.
Qed.

Lemma parse_items_render : forall its size, 0 <= size <= int64_max -> items_ok its = true ->
  parse_items (map render_item its) size = parse_specs (specs_of its) size.
Proof.
  induction its as [|it its IH]; intros size Hs H; [reflexivity|].
  unfold items_ok in H. simpl in H. apply andb_true_iff in H. destruct H as [Hit Hits].
  specialize (IH size Hs Hits).
  cbn [map parse_items specs_of]. cbv zeta.
  destruct it as [w|w1 fa a w2 w3 fb b w4|w1 fa a w2 w3|w1 w3 fn n w4].
  - cbn [render_item item_spec]. simpl in Hit. rewrite trim_ws by assumption. cbn [str_empty]. exact IH.
  - destruct (parse_item_closed w1 fa a w2 w3 fb b w4 size Hs Hit) as [H1 H2].
    cbv zeta in H1, H2. rewrite H1, H2. cbn [item_spec parse_specs]. rewrite IH. reflexivity.
  - destruct (parse_item_from w1 fa a w2 w3 size Hs Hit) as [H1 H2].
    cbv zeta in H1, H2. rewrite H1, H2. cbn [item_spec parse_specs]. rewrite IH. reflexivity.
  - destruct (parse_item_suffix w1 w3 fn n w4 size Hs Hit) as [H1 H2].
    cbv zeta in H1, H2. rewrite H1, H2. cbn [item_spec parse_specs]. rewrite IH. reflexivity.
Qed.

(* parseRange on ANY spelling of a header = the structured parser on its specs *)
Theorem parse_range_render : forall its size, 0 <= size <= int64_max -> items_ok its = true ->
  parse_range (render_header its) size = parse_specs (specs_of its) size.
Proof.
  intros its size Hs H. unfold parse_range, render_header.
  change (strip_prefix "bytes=" (append "bytes=" (join_comma (map render_item its))))
    with (Some (join_comma (map render_item its))).
  destruct its as [|it its].
  - reflexivity.
  - rewrite split_join.
    + apply parse_items_render; assumption.
    + discriminate.
    + intros x Hx. apply in_map_iff in Hx. destruct Hx as [it0 [<- Hin]].
      apply render_item_nocomma. unfold items_ok in H. rewrite forallb_forall in H. apply H. assumption.
Qed.

Theorem renders_parse : forall sps hdr size, 0 <= size <= int64_max -> renders sps hdr ->
  parse_range hdr size = parse_specs sps size.
Proof.
  intros sps hdr size Hs [its [Hok [<- <-]]]. apply parse_range_render; assumption.
Qed.

(* the canonical spelling is the printed header *)
Lemma canon_item_render : forall sp, render_item (canon_item sp) = print_spec sp.
Proof.
  intros [a b|a|n]; cbn [canon_item render_item print_spec ws_str fold_right append];
    unfold render_num; cbn [nf0 nf_plus nf_zeros zeros]; rewrite ?app_nil_r_s; reflexivity.
Qed.
Lemma canon_render : forall sps, render_header (canon sps) = print_header sps.
Proof.
  intros sps. unfold render_header, print_header, canon. rewrite map_map.
  f_equal. f_equal. apply map_ext. apply canon_item_render.
Qed.
Lemma canon_ok : forall sps, items_ok (canon sps) = true.
Proof.
  intros sps. unfold items_ok, canon. apply forallb_forall. intros it Hin.
  apply in_map_iff in Hin. destruct Hin as [sp [<- _]]. destruct sp; reflexivity.
Qed.
Lemma canon_specs : forall sps, specs_of (canon sps) = sps.
Proof. induction sps as [|sp sps IH]; [reflexivity|]. unfold canon in *. destruct sp; cbn [map canon_item specs_of item_spec]; rewrite IH; reflexivity. Qed.
Lemma print_renders : forall sps, renders sps (print_header sps).
Proof. intros sps. exists (canon sps). split; [apply canon_ok|]. split; [apply canon_specs|apply canon_render]. Qed.

(* parseRange on the printed header = the structured parser, for all numbers *)
Theorem parse_range_print : forall sps size, 0 <= size <= int64_max ->
  parse_range (print_header sps) size = parse_specs sps size.
Proof. intros sps size Hs. apply renders_parse; [assumption|apply print_renders]. Qed.

Lemma render_header_nonempty : forall its, str_empty (render_header its) = false.
Proof. reflexivity. Qed.
Lemma print_header_nonempty : forall sps, str_empty (print_header sps) = false.
Proof. reflexivity. Qed.

(* ------------------------------------------------------------------ *)
(* C32 on the header text *)

(* every spelling of a structured header *)
Theorem exact_partial : forall d its enc ct, blen d <= int64_max -> items_ok its = true ->
  mp_fits (blen d) (slen ct) (ref_ranges (specs_of its) (blen d)) = true ->
  trig_specs (specs_of its) (blen d) = None ->
  spec_ok d (specs_of its) (process_range (render_header its) d enc ct) = true.
Proof.
  intros d its enc ct Hm Hok Hfit Ht. unfold process_range. rewrite render_header_nonempty.
  rewrite parse_range_render; [|split; [apply blen_nonneg|assumption]|assumption].
  apply exact_specs_partial; assumption.
Qed.
Theorem exact_partial_print : forall d sps enc ct, blen d <= int64_max ->
  mp_fits (blen d) (slen ct) (ref_ranges sps (blen d)) = true ->
  trig_specs sps (blen d) = None ->
  spec_ok d sps (process_range (print_header sps) d enc ct) = true.
Proof.
  intros d sps enc ct Hm Hfit Ht. rewrite <- canon_render.
  pose proof (exact_partial d (canon sps) enc ct Hm (canon_ok sps)) as H.
  rewrite canon_specs in H. apply H; assumption.
Qed.

(* the parser alone, on every spelling *)
Theorem parse_only_partial : forall its size, 0 <= size <= int64_max -> items_ok its = true ->
  trig_parse_specs (specs_of its) size = None ->
  parse_spec_ok (specs_of its) size (parse_range (render_header its) size) = true.
Proof.
  intros its size Hs Hok Ht. rewrite parse_range_render by assumption.
  apply parse_specs_partial; [lia|assumption].
Qed.

(* the single-range forms on the header text *)
Theorem parse_range_closed : forall a b size, 0 <= size <= int64_max -> Z.of_N b <= int64_max ->
  (a <= b)%N -> Z.of_N a < size ->
  parse_range (print_header [RClosed a b]) size = Some [(Z.of_N a, Z.min (Z.of_N b) (size - 1) - Z.of_N a + 1)].
Proof. intros a b size Hs Hb Hab Ha. rewrite parse_range_print by assumption. apply parse_closed; lia. Qed.
Theorem parse_range_from : forall a size, 0 <= size <= int64_max -> Z.of_N a < size ->
  parse_range (print_header [RFrom a]) size = Some [(Z.of_N a, size - Z.of_N a)].
Proof. intros a size Hs Ha. rewrite parse_range_print by assumption. apply parse_from; lia. Qed.
Theorem parse_range_suffix : forall n size, 0 <= size <= int64_max -> Z.of_N n <= int64_max ->
  parse_range (print_header [RSuffix n]) size = Some [(size - Z.min (Z.of_N n) size, Z.min (Z.of_N n) size)].
Proof. intros n size Hs Hn. rewrite parse_range_print by assumption. apply parse_suffix; lia. Qed.
Theorem parse_range_beyond : forall a b size, 0 <= size <= int64_max -> size < Z.of_N a ->
  parse_range (print_header [RClosed a b]) size = None.
Proof. intros a b size Hs H. rewrite parse_range_print by assumption. apply parse_start_beyond; assumption. Qed.
(* a number above int64 max anywhere: the header is refused *)
Theorem parse_range_big : forall sp size, 0 <= size <= int64_max -> spec_big sp = true ->
  parse_range (print_header [sp]) size = None.
Proof. intros sp size Hs H. rewrite parse_range_print by assumption. apply parse_big; assumption. Qed.

(* no Range header: 200 with everything; HEAD: 200, no body *)
Theorem no_range_full : forall d enc ct, full_200 d (process_range "" d enc ct) = true.
Proof.
  intros. unfold process_range, full_200. cbn [str_empty r_status r_body r_cl r_cr N.eqb Pos.eqb andb].
  unfold body_eqb, oz_eqb, ocr_eqb. rewrite blob_eqb_refl, Z.eqb_refl. reflexivity.
Qed.
Theorem head_full : forall hdr d enc ct, head_ok d (write_response_content true hdr d enc ct) = true.
Proof.
  intros. unfold write_response_content, head_ok. cbn [r_status r_body r_cl N.eqb Pos.eqb andb].
  unfold body_eqb, oz_eqb. rewrite Z.eqb_refl. reflexivity.
Qed.

(* ------------------------------------------------------------------ *)
(* gzip negotiation *)
Theorem negotiate_representation : forall s ae,
  fst (negotiate s ae) = representation s (snd (negotiate s ae)).
Proof.
  intros s ae. unfold negotiate, representation.
  destruct (st_flag s); [|reflexivity].
  destruct (accept_has_gzip ae && is_gzipped (st_data s)) eqn:E; [reflexivity|].
  destruct (is_gzipped (st_data s)); reflexivity.
Qed.

Theorem gzip_partial : forall s ae, trig_gzip s ae = false ->
  gzip_ok s ae (snd (negotiate s ae)) = true.
Proof.
  intros s ae Ht. unfold negotiate, gzip_ok, trig_gzip in *.
  destruct (st_flag s); [|reflexivity].
  destruct (accept_has_gzip ae) eqn:Ea; destruct (is_gzipped (st_data s)) eqn:Eg; simpl in *; try reflexivity.
  apply negb_false_iff in Ht. rewrite Ht. reflexivity.
Qed.

(* gzip is never chosen unless the blob is stored compressed and the text "gzip" occurs *)
Theorem gzip_needs_flag : forall s ae, snd (negotiate s ae) = true ->
  st_flag s = true /\ is_gzipped (st_data s) = true /\ accept_has_gzip ae = true.
Proof.
  intros s ae H. unfold negotiate in H.
  destruct (st_flag s); [|discriminate].
  destruct (accept_has_gzip ae) eqn:Ea; destruct (is_gzipped (st_data s)) eqn:Eg; simpl in H; try discriminate; auto.
Qed.

(* the representation exists unless a corrupt stream has to be decompressed (k=7) *)
Theorem corrupt_partial : forall s ae, trig_corrupt s ae = false ->
  rep_ok s (snd (negotiate s ae)) = true.
Proof.
  intros s ae Ht. unfold negotiate, rep_ok, trig_corrupt in *.
  destruct (st_flag s); [|reflexivity].
  destruct (accept_has_gzip ae) eqn:Ea; destruct (is_gzipped (st_data s)) eqn:Eg; simpl in *; try reflexivity.
  apply negb_false_iff in Ht. rewrite Ht. reflexivity.
Qed.

Lemma representation_len : forall s enc, blen (st_data s) <= int64_max -> blen (st_plain s) <= int64_max ->
  blen (representation s enc) <= int64_max.
Proof.
  intros s enc H1 H2. unfold representation. destruct enc; [assumption|].
  destruct (st_flag s && is_gzipped (st_data s)); assumption.
Qed.

(* the whole GET, every spelling of a structured header *)
Theorem get_partial : forall s ae its dl,
  blen (st_data s) <= int64_max -> blen (st_plain s) <= int64_max -> items_ok its = true ->
  trig_gzip s ae = false -> trig_corrupt s ae = false ->
  let size := blen (fst (negotiate s ae)) in
  mp_fits size (slen (mime_of s)) (ref_ranges (specs_of its) size) = true ->
  trig_specs (specs_of its) size = None ->
  let fr := get_or_head false dl s ae (render_header its) in
  gzip_ok s ae (f_gzip fr) = true /\ rep_ok s (f_gzip fr) = true /\
  spec_ok (representation s (f_gzip fr)) (specs_of its) (f_resp fr) = true.
Proof.
  intros s ae its dl H1 H2 Hok Hg Hc size Hfit Ht. unfold get_or_head. subst size.
  pose proof (negotiate_representation s ae) as Hr.
  pose proof (gzip_partial s ae Hg) as Hgz. pose proof (corrupt_partial s ae Hc) as Hco.
  destruct (negotiate s ae) as [rep enc] eqn:En. simpl in *. subst rep.
  split; [assumption|]. split; [assumption|]. unfold write_response_content.
  apply exact_partial; auto. apply representation_len; assumption.
Qed.

(* the whole GET, any header text *)
Theorem get_raw_partial : forall s ae hdr dl,
  blen (st_data s) <= int64_max -> blen (st_plain s) <= int64_max ->
  trig_gzip s ae = false -> trig_corrupt s ae = false ->
  let d := fst (negotiate s ae) in
  mp_fits_hdr hdr d (mime_of s) = true ->
  trig_parsed (parse_range hdr (blen d)) (blen d) = None ->
  let fr := get_or_head false dl s ae hdr in
  gzip_ok s ae (f_gzip fr) = true /\ rep_ok s (f_gzip fr) = true /\
  self_consistent (representation s (f_gzip fr)) (f_resp fr) = true.
Proof.
  intros s ae hdr dl H1 H2 Hg Hc d Hfit Ht. unfold get_or_head. subst d.
  pose proof (negotiate_representation s ae) as Hr.
  pose proof (gzip_partial s ae Hg) as Hgz. pose proof (corrupt_partial s ae Hc) as Hco.
  destruct (negotiate s ae) as [rep enc] eqn:En. simpl in *. subst rep.
  split; [assumption|]. split; [assumption|]. unfold write_response_content.
  apply raw_consistent_partial; auto. apply representation_len; assumption.
Qed.

(* the headers every answer carries *)
Theorem get_common_headers : forall head dl s ae hdr,
  f_ar (get_or_head head dl s ae hdr) = true /\
  f_cdisp (get_or_head head dl s ae hdr) = content_disposition (st_name s) dl.
Proof. intros. unfold get_or_head. destruct (negotiate s ae). split; reflexivity. Qed.

(* ------------------------------------------------------------------ *)
(* refutations of the full statements: concrete witnesses (the known findings) *)
Definition abcdef : blob := [97; 98; 99; 100; 101; 102]%N.
Definition r_nothing : response := {| r_status := 200; r_ct := ""; r_cr := None; r_cl := None; r_body := Plain [] 0 |}.

(* k=0: "Range: bytes=" — 200 with an empty body *)
Theorem refuted_empty_list :
  spec_ok abcdef [] (process_range (print_header []) abcdef false "") = false /\
  print_header [] = "bytes="%string /\
  process_range "bytes=" abcdef false "" = r_nothing.
Proof. vm_compute. auto. Qed.

(* k=1: "Range: bytes=0-,0-" — the sum exceeds the size: 200 with an empty body *)
Theorem refuted_oversize :
  spec_ok abcdef [RFrom 0; RFrom 0] (process_range (print_header [RFrom 0; RFrom 0]) abcdef false "") = false /\
  process_range "bytes=0-,0-" abcdef false "" = r_nothing.
Proof. vm_compute. auto. Qed.

(* k=2: "Range: bytes=6-" on 6 bytes — 206 with zero bytes and Content-Range "bytes 6-5/6" *)
Theorem refuted_zero_length :
  spec_ok abcdef [RFrom 6] (process_range (print_header [RFrom 6]) abcdef false "") = false /\
  process_range "bytes=6-" abcdef false "" =
    {| r_status := 206; r_ct := ""; r_cr := Some (6, 5, 6); r_cl := Some 0; r_body := Plain [] 0 |}.
Proof. vm_compute. auto. Qed.

(* k=3: "Range: bytes=--2" — a negative suffix length is accepted: 206, Content-Length -2,
   Content-Range "bytes 8-5/6" *)
Theorem refuted_negative_suffix :
  self_consistent abcdef (process_range "bytes=--2" abcdef false "") = false /\
  process_range "bytes=--2" abcdef false "" =
    {| r_status := 206; r_ct := ""; r_cr := Some (8, 5, 6); r_cl := Some (-2); r_body := Plain [] 0 |}.
Proof. vm_compute. auto. Qed.

(* k=3 inside a multi-range request: the int64 minimum as suffix length passes every check;
   Content-Length is negative and nothing is sent *)
Theorem refuted_negative_suffix_multi :
  self_consistent abcdef (process_range "bytes=--9223372036854775808,0-0" abcdef false "") = false /\
  process_range "bytes=--9223372036854775808,0-0" abcdef false "" =
    {| r_status := 206; r_ct := "multipart/byteranges"; r_cr := None; r_cl := Some (-9223372036854775498);
       r_body := Multipart "" [] 0 0 |} /\
  process_range "bytes=--9223372036854775808,--9223372036854775808" abcdef false "" =
    {| r_status := 206; r_ct := "multipart/byteranges"; r_cr := None; r_cl := Some 328;
       r_body := Multipart "" [] 1 144 |}.
Proof. vm_compute. auto. Qed.

(* k=4: "Range: bytes=0-1,9-10" on 6 bytes — 416 although 0-1 is satisfiable *)
Theorem refuted_mixed :
  spec_ok abcdef [RClosed 0 1; RClosed 9 10] (process_range (print_header [RClosed 0 1; RClosed 9 10]) abcdef false "") = false /\
  r_status (process_range "bytes=0-1,9-10" abcdef false "") = 416%N /\
  ref_ranges [RClosed 0 1; RClosed 9 10] (blen abcdef) = [(0, 2)].
Proof. vm_compute. auto. Qed.

(* k=5: "Accept-Encoding: gzip;q=0" still gets Content-Encoding: gzip *)
Definition gz_stub : stored :=
  {| st_flag := true; st_data := [31; 139; 8; 0]%N; st_plain := []; st_gzok := true;
     st_name := ""; st_mime := ""; st_extmime := "" |}.
Theorem refuted_gzip_q0 :
  snd (negotiate gz_stub "gzip;q=0") = true /\ gzip_ok gz_stub "gzip;q=0" (snd (negotiate gz_stub "gzip;q=0")) = false.
Proof. vm_compute. auto. Qed.

(* k=6: "Range: bytes=0-9223372036854775808" on 6 bytes — 416 "invalid range" although the
   RFC reads it as the whole blob; also the parser-level statement *)
Theorem refuted_big_number :
  spec_ok abcdef [RClosed 0 9223372036854775808]
    (process_range (print_header [RClosed 0 9223372036854775808]) abcdef false "") = false /\
  print_header [RClosed 0 9223372036854775808] = "bytes=0-9223372036854775808"%string /\
  process_range "bytes=0-9223372036854775808" abcdef false "" = resp_416 3 /\
  ref_ranges [RClosed 0 9223372036854775808] (blen abcdef) = [(0, 6)] /\
  ref_spec (RClosed 0 9223372036854775808) 6 = Some (0, 6) /\
  parse_spec64 (RClosed 0 9223372036854775808) 6 = None.
Proof. vm_compute. repeat split; reflexivity. Qed.

(* k=7: a blob flagged compressed with the gzip magic and a corrupt stream, client without
   gzip: the decompression error is dropped and whatever came out (here nothing) is served as 200 *)
Definition gz_corrupt : stored :=
  {| st_flag := true; st_data := [31; 139; 0; 1; 2; 3]%N; st_plain := []; st_gzok := false;
     st_name := ""; st_mime := ""; st_extmime := "" |}.
Theorem refuted_corrupt :
  rep_ok gz_corrupt (f_gzip (get_or_head false false gz_corrupt "" "")) = false /\
  f_resp (get_or_head false false gz_corrupt "" "") =
    {| r_status := 200; r_ct := ""; r_cr := None; r_cl := Some 0; r_body := Plain [] 0 |}.
Proof. vm_compute. auto. Qed.

(* the same inputs are inside the trigger sets *)
Theorem witnesses_triggered :
  trig_specs [] 6 = Some 0%N /\ trig_specs [RFrom 0; RFrom 0] 6 = Some 1%N /\
  trig_specs [RFrom 6] 6 = Some 2%N /\ trig_parsed (parse_range "bytes=--2" 6) 6 = Some 3%N /\
  trig_parsed (parse_range "bytes=--9223372036854775808,0-0" 6) 6 = Some 3%N /\
  trig_specs [RClosed 0 1; RClosed 9 10] 6 = Some 4%N /\
  trig_gzip gz_stub "gzip;q=0" = true /\
  trig_specs [RClosed 0 9223372036854775808] 6 = Some 6%N /\
  trig_parse_specs [RClosed 0 9223372036854775808] 6 = Some 6%N /\
  trig_corrupt gz_corrupt "" = true.
Proof. vm_compute. repeat split. Qed.

(* the triggers are narrow: a multi-range request with a negative suffix that is answered 416
   or the empty 200 is not labelled k=3 *)
Theorem trigger3_narrow :
  trig_parsed (parse_range "bytes=--2,0-1" 6) 6 = None /\
  r_status (process_range "bytes=--2,0-1" abcdef false "") = 416%N /\
  trig_parsed (parse_range "bytes=--2,0-,0-" 6) 6 = Some 1%N.
Proof. vm_compute. auto. Qed.

(* non-vacuity: a multi-range request outside every trigger, in a non-canonical spelling
   (white space incl. U+00A0, '+', leading zeros, an empty element), and what it returns *)
Definition nbsp : string := bs [194; 160]%nat.
Definition example_items : list item :=
  [IClosed [" "%string] {| nf_plus := true; nf_zeros := 2 |} 0 [nbsp] [] nf0 1 [];
   IBlank [" "%string];
   ISuffix [] [] {| nf_plus := false; nf_zeros := 1 |} 2 [nbsp; " "%string];
   IClosed [] nf0 3 [] [] nf0 3 []].
Example exact_example :
  let d := abcdef in
  let sps := [RClosed 0 1; RSuffix 2; RClosed 3 3] in
  specs_of example_items = sps /\ items_ok example_items = true /\
  trig_specs sps (blen d) = None /\ mp_fits (blen d) 0 (ref_ranges sps (blen d)) = true /\
  print_header sps = "bytes=0-1,-2,3-3"%string /\
  render_header example_items = append "bytes= +000" (append nbsp (append "-1, ,-02" (append nbsp " ,3-3"))) /\
  process_range (render_header example_items) d false "" =
    {| r_status := 206; r_ct := "multipart/byteranges"; r_cr := None; r_cl := Some 407;
       r_body := Multipart "" [((0, 1, 6), [97; 98]%N); ((4, 5, 6), [101; 102]%N); ((3, 3, 6), [100]%N)] 0 407 |}.
Proof. vm_compute. repeat split; reflexivity. Qed.
(* non-vacuity of the raw statements: a header no spelling covers (a negative number as
   last-byte-pos next to a good range is refused; "bytes=1-2" with a trailing ";" too), and
   a free-form one that is served *)
Example raw_example :
  let s := {| st_flag := false; st_data := abcdef; st_plain := abcdef; st_gzok := true;
              st_name := "a.txt"; st_mime := "text/x-test"; st_extmime := "text/plain; charset=utf-8" |} in
  let hdr := append "bytes=" (append nbsp " 1 - +02 ,,") in
  trig_gzip s "" = false /\ trig_corrupt s "" = false /\
  mp_fits_hdr hdr abcdef (mime_of s) = true /\
  trig_parsed (parse_range hdr 6) 6 = None /\
  get_or_head false true s "" hdr =
    {| f_resp := {| r_status := 206; r_ct := "text/x-test"; r_cr := Some (1, 2, 6); r_cl := Some 2;
                    r_body := Plain [98; 99]%N 0 |};
       f_gzip := false; f_cdisp := "attachment; filename=""a.txt"""; f_ar := true |} /\
  trig_parsed (parse_range "bytes=0-1,2--3" 6) 6 = None /\
  process_range "bytes=0-1,2--3" abcdef false "" = resp_416 3.
Proof. vm_compute. repeat split; reflexivity. Qed.
Example gzip_example :
  let s := {| st_flag := true; st_data := [31; 139; 8; 0; 9]%N; st_plain := [104; 105]%N; st_gzok := true;
              st_name := ""; st_mime := ""; st_extmime := "" |} in
  trig_gzip s "deflate, gzip;q=0.5" = false /\
  f_resp (get_or_head false false s "deflate, gzip;q=0.5" "bytes=1-2") =
    {| r_status := 206; r_ct := ""; r_cr := Some (1, 2, 5); r_cl := Some 2; r_body := Plain [139; 8]%N 0 |} /\
  f_gzip (get_or_head false false s "deflate, gzip;q=0.5" "bytes=1-2") = true /\
  f_resp (get_or_head false false s "identity" "bytes=1-2") =
    {| r_status := 206; r_ct := ""; r_cr := Some (1, 1, 2); r_cl := Some 1; r_body := Plain [105]%N 0 |} /\
  f_gzip (get_or_head false false s "identity" "bytes=1-2") = false.
Proof. vm_compute. repeat split; reflexivity. Qed.
