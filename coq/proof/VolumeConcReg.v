(* C38: from the sequential volume model to the register specification with every answer field
   (C01's second-round specification xexpect / xmatch), for all keys inside C01's hypotheses and
   per key without them; the checkers of the correspondence check; witnesses. *)
From Coq Require Import List NArith ZArith Bool Lia Permutation.
From SW Require Import model.Volume model.VolumeConc proof.VolumeProofs proof.VolumeKeyProofs proof.VolumeKeyMain
  proof.VolumeConcProofs.
Import ListNotations.
Local Open Scope N_scope.

(* ================= Part 3: one critical section against the specification ================= *)
Lemma RC_init_flags : forall C a b, RC C (init_flags a b) (spec_flags a b) [].
Proof.
  intros C a b. split; [split; reflexivity|]. split.
  - split; [reflexivity|]. intros off r H. discriminate.
  - intros id _. reflexivity.
Qed.

(* C01's per-key step theorem, for the operations of this machine *)
Lemma pk_step : forall D st sp seen (ev : event),
  RC (cleanD D) st sp seen -> wf_event ev = true ->
  RC (cleanD (dirty_step D seen (XBase (snd ev)))) (fst (step st ev)) (fst (spec_step sp ev))
     (xseen_next seen (XBase (snd ev))) /\
  (dirt_of_keys (dirty_step D seen (XBase (snd ev))) (xkeys (XBase (snd ev))) = None ->
   reg_acc sp ev (snd (step st ev)) = true).
Proof.
  intros D st sp seen [t o] HR Hwf.
  destruct (xstep_RC gid D st sp seen (t, XBase o) HR Hwf) as [H1 H2].
  cbn [snd] in *. unfold xstep, xspec_step in *. destruct (step st (t, o)) as [st' r]. cbn [fst snd] in *.
  split; [exact H1 | exact H2].
Qed.

Lemma dirt_nil_keys : forall ks, dirt_of_keys [] ks = None.
Proof. induction ks as [|k ks IH]; [reflexivity | exact IH]. Qed.

Lemma clean_step : forall seen ev, ev_ok seen ev -> dirty_step [] seen (XBase (snd ev)) = [].
Proof.
  intros seen [t o] [_ H]. unfold dirty_step, self_trig. cbn [snd xop_needle] in *.
  destruct (op_needle o) as [n|].
  - destruct H as [H1 H2]. unfold fresh in H2. rewrite H1, H2, dirt_nil_keys. reflexivity.
  - rewrite dirt_nil_keys. reflexivity.
Qed.

Lemma read_dirt : forall D seen id c rd, dirt_get D id = None ->
  dirty_step D seen (XBase (RawRead id c rd)) = D /\
  dirt_of_keys D (xkeys (XBase (RawRead id c rd))) = None.
Proof.
  intros D seen id c rd H. unfold dirty_step, self_trig. cbn [xop_needle op_needle xkeys dirt_of_keys].
  rewrite H. split; reflexivity.
Qed.

(* a read of a key no finding has touched answers as the specification says *)
Lemma read_agrees : forall D st sp seen id c t,
  RC (cleanD D) st sp seen -> dirt_get D id = None ->
  reg_acc sp (t, RawRead id c false) (snd (step st (t, RawRead id c false))) = true.
Proof.
  intros D st sp seen id c t HR Hd.
  destruct (pk_step D st sp seen (t, RawRead id c false) HR eq_refl) as [_ HM].
  apply HM. cbn [snd]. destruct (read_dirt D seen id c false Hd) as [E1 E2]. rewrite E1. exact E2.
Qed.

(* ================= Part 4: a linearization of the volume model is one of the specification ================= *)
(* per key, no hypothesis beyond representable needles *)
Lemma seq_vol_to_pk : forall (lin : hist) st s st',
  RC (cleanD (pk_dirt s)) st (pk_sp s) (pk_seen s) -> wf_history (map o_op lin) = true ->
  seq_ok vol_nxt vol_acc st lin = Some st' ->
  exists s', seq_ok pk_nxt pk_acc s lin = Some s' /\ RC (cleanD (pk_dirt s')) st' (pk_sp s') (pk_seen s').
Proof.
  induction lin as [|a lin IH]; intros st s st' HR Hwf H; cbn [seq_ok map] in *.
  - inversion H; subst. exists s. split; [reflexivity | exact HR].
  - unfold vol_acc, vol_nxt in H. destruct (out_eqb (snd (step st (o_op a))) (o_out a)) eqn:E; [|discriminate].
    apply out_eqb_eq in E. unfold wf_history in Hwf. cbn [forallb] in Hwf.
    apply andb_true_iff in Hwf. destruct Hwf as [W1 W2].
    destruct (pk_step _ _ _ _ (o_op a) HR W1) as [HR' HM].
    assert (A : pk_acc s (o_op a) (o_out a) = true).
    { unfold pk_acc, pk_dirt_next.
      destruct (dirt_of_keys (dirty_step (pk_dirt s) (pk_seen s) (XBase (snd (o_op a)))) (xkeys (XBase (snd (o_op a))))) eqn:Ed;
        [reflexivity|]. rewrite <- E. apply HM. reflexivity. }
    rewrite A. apply (IH (fst (step st (o_op a))) (pk_nxt s (o_op a)) st'); [exact HR' | exact W2 | exact H].
Qed.

(* all keys, inside C01's hypotheses *)
Lemma seq_vol_to_reg : forall (lin : hist) st sp seen st',
  RC (cleanD []) st sp seen ->
  wf_history (map o_op lin) = true -> empty_payload (map o_op lin) = false -> meta_dup seen (map o_op lin) = false ->
  seq_ok vol_nxt vol_acc st lin = Some st' ->
  exists sp' seen', seq_ok reg_nxt reg_acc sp lin = Some sp' /\ RC (cleanD []) st' sp' seen'.
Proof.
  induction lin as [|a lin IH]; intros st sp seen st' HR Hwf He Hm H; cbn [seq_ok map] in *.
  - inversion H; subst. exists sp, seen. split; [reflexivity | exact HR].
  - unfold vol_acc, vol_nxt in H. destruct (out_eqb (snd (step st (o_op a))) (o_out a)) eqn:E; [|discriminate].
    apply out_eqb_eq in E.
    destruct (history_split (o_op a) (map o_op lin) seen Hwf He Hm) as (Hok & Hwf' & He' & Hm').
    destruct (pk_step [] st sp seen (o_op a) HR (proj1 Hok)) as [HR' HM].
    rewrite (clean_step seen (o_op a) Hok) in HR', HM.
    rewrite <- E, (HM (dirt_nil_keys _)).
    exact (IH _ _ _ _ HR' Hwf' He' Hm' H).
Qed.

(* the specification with every answer field accepts no more than C01's first-round one *)
Ltac split_and H :=
  repeat match type of H with (_ && _) = true => let H' := fresh in apply andb_true_iff in H; destruct H as [H H'] end.
Ltac acc0_fin :=
  let H := fresh "H" in
  cbn [xmatch match_out]; try discriminate; try reflexivity; intro H; split_and H;
  first [ exact H | assumption
        | apply N.eqb_eq in H; subst;
          repeat match goal with |- context [if ?c then _ else _] => destruct c end; reflexivity
        | rewrite H; assumption | rewrite H; reflexivity ].

Lemma reg_acc_acc0 : forall sp ev o, reg_acc sp ev o = true -> reg_acc0 sp ev o = true.
Proof.
  intros sp [t op] o. unfold reg_acc, reg_acc0. cbn [fst snd].
  destruct op as [n|u|id c rd|id c|id c rd|id c|b|b]; cbn [xexpect spec_step].
  - unfold xexpect_write. destruct (spec_write sp n t) as [sp' e] eqn:Ew. cbn [snd].
    unfold spec_write in Ew. destruct (negb (s_nwod sp || s_nwcd sp) && _) in Ew; inversion Ew; subst;
      destruct o; acc0_fin.
  - unfold xexpect_write. destruct (spec_write sp (needle_of_upload u) t) as [sp' e] eqn:Ew. cbn [snd].
    unfold spec_write in Ew. destruct (negb (s_nwod sp || s_nwcd sp) && _) in Ew; inversion Ew; subst;
      destruct o; acc0_fin.
  - destruct rd; [reflexivity|]. destruct (s_lookup sp id t) as [[c' n]|]; [destruct (c' =? c)|];
      cbn [snd]; destruct o; cbn [xmatch match_out]; auto.
  - destruct (s_lookup sp id t) as [[c' n]|]; [destruct (negb (c' =? c)); [|destruct (s_nwod sp)]|];
      cbn [snd]; destruct o; acc0_fin.
  - destruct rd; [reflexivity|]. destruct (s_lookup sp id t) as [[c' n]|];
      cbn [snd]; destruct o; cbn [xmatch match_out]; auto.
  - destruct (s_nwod sp); cbn [snd]; destruct o; acc0_fin.
  - reflexivity.
  - reflexivity.
Qed.

Lemma seq_ok_weaken : forall (lin : hist) sp sp',
  seq_ok reg_nxt reg_acc sp lin = Some sp' -> seq_ok reg_nxt reg_acc0 sp lin = Some sp'.
Proof.
  induction lin as [|a lin IH]; intros sp sp' H; cbn [seq_ok] in *; [exact H|].
  destruct (reg_acc sp (o_op a) (o_out a)) eqn:E; [|discriminate].
  rewrite (reg_acc_acc0 _ _ _ E). apply IH. exact H.
Qed.

(* linearizable w.r.t. the every-field specification => linearizable w.r.t. C01's first-round one
   (what c38_linearizable_register_partial stated before the audit) *)
Theorem reg_lin_weaken : forall sp0 (fin : spec -> Prop) (h : hist),
  linearizable reg_nxt reg_acc sp0 fin h -> linearizable reg_nxt reg_acc0 sp0 fin h.
Proof.
  intros sp0 fin h (lin & st' & P & RT & SQ & F). exists lin, st'. repeat split; auto. apply seq_ok_weaken. exact SQ.
Qed.

(* a history that is linearizable w.r.t. the sequential volume model is linearizable w.r.t. the
   register specification, by the SAME order, and the final volume agrees with the final
   register state -- inside the hypotheses of C01's refinement theorem *)
Theorem vol_lin_to_reg : forall a b (h : hist) V,
  conc_ok (map o_op h) = true ->
  linearizable vol_nxt vol_acc (init_flags a b) (fun st => st = V) h ->
  linearizable reg_nxt reg_acc (spec_flags a b) (agrees V) h.
Proof.
  intros a b h V Hc (lin & st' & P & RT & SQ & ->).
  destruct (conc_ok_perm _ _ (Permutation_map o_op (Permutation_sym P)) Hc) as (Hwf & He & Hm).
  destruct (seq_vol_to_reg lin _ _ [] _ (RC_init_flags _ a b) Hwf He Hm SQ) as (sp' & seen' & SQ' & HR).
  exists lin, sp'. repeat split; auto.
  intros id c t. eapply read_agrees; [exact HR | reflexivity].
Qed.

(* ... and, with no hypothesis beyond representable needles, w.r.t. the per-key specification: the
   answers of the calls on every key that no finding of C01 touches (in that order) are the
   specification's, and so are the reads of those keys afterwards *)
Theorem vol_lin_to_pk : forall a b (h : hist) V,
  wf_history (map o_op h) = true ->
  linearizable vol_nxt vol_acc (init_flags a b) (fun st => st = V) h ->
  linearizable pk_nxt pk_acc (pk_init (spec_flags a b)) (agrees_pk V) h.
Proof.
  intros a b h V Hwf (lin & st' & P & RT & SQ & ->).
  assert (Hwf' : wf_history (map o_op lin) = true).
  { unfold wf_history in *. rewrite (forallb_perm _ _ _ _ (Permutation_map o_op P)). exact Hwf. }
  destruct (seq_vol_to_pk lin _ (pk_init (spec_flags a b)) _ (RC_init_flags _ a b) Hwf' SQ) as (s' & SQ' & HR).
  exists lin, s'. repeat split; auto.
  intros id c t Hd. eapply read_agrees; [exact HR | exact Hd].
Qed.

(* ---- C38, with respect to the register specification ---- *)
Theorem machine_linearizable_reg : forall a b stop sched m,
  mrun (minit (init_flags a b) stop) sched = Some m -> complete m = true ->
  conc_ok (map o_op (history m)) = true ->
  linearizable reg_nxt reg_acc (spec_flags a b) (agrees (m_vol m)) (history m).
Proof.
  intros a b stop sched m Hrun Hc Hok. apply vol_lin_to_reg; [exact Hok|].
  eapply machine_linearizable; eauto.
Qed.

Theorem machine_linearizable_pk : forall a b stop sched m,
  mrun (minit (init_flags a b) stop) sched = Some m -> complete m = true ->
  wf_history (map o_op (history m)) = true ->
  linearizable pk_nxt pk_acc (pk_init (spec_flags a b)) (agrees_pk (m_vol m)) (history m).
Proof.
  intros a b stop sched m Hrun Hc Hok. apply vol_lin_to_pk; [exact Hok|].
  eapply machine_linearizable; eauto.
Qed.

(* ================= Part 5: the checkers used by the correspondence check ================= *)
Theorem lin_check_vol_sound : forall a b f (h : hist),
  lin_check_vol a b f h = true ->
  linearizable vol_nxt vol_acc (init_flags a b) (fun st => vol_final f st = true) h.
Proof. intros a b f h. apply lin_check_sound. auto. Qed.

Theorem lin_check_vol_complete : forall a b f (h : hist),
  linearizable vol_nxt vol_acc (init_flags a b) (fun st => vol_final f st = true) h ->
  lin_check_vol a b f h = true.
Proof. intros a b f h. apply lin_check_complete. auto. Qed.

Theorem lin_check_reg_sound : forall a b fr (h : hist),
  lin_check_reg a b fr h = true ->
  linearizable reg_nxt reg_acc (spec_flags a b) (fun sp => agrees_on fr sp = true) h.
Proof. intros a b fr h. apply lin_check_sound. auto. Qed.

Theorem lin_check_reg_complete : forall a b fr (h : hist),
  linearizable reg_nxt reg_acc (spec_flags a b) (fun sp => agrees_on fr sp = true) h ->
  lin_check_reg a b fr h = true.
Proof. intros a b fr h. apply lin_check_complete. auto. Qed.

Theorem lin_check_pk_sound : forall a b fr (h : hist),
  lin_check_pk a b fr h = true ->
  linearizable pk_nxt pk_acc (pk_init (spec_flags a b)) (fun s => agrees_on_pk fr s = true) h.
Proof. intros a b fr h. apply lin_check_sound. auto. Qed.

Theorem lin_check_pk_complete : forall a b fr (h : hist),
  linearizable pk_nxt pk_acc (pk_init (spec_flags a b)) (fun s => agrees_on_pk fr s = true) h ->
  lin_check_pk a b fr h = true.
Proof. intros a b fr h. apply lin_check_complete. auto. Qed.

(* the per-key checker accepts whatever the all-keys checker accepts *)
Lemma pk_acc_of_reg : forall s ev o, reg_acc (pk_sp s) ev o = true -> pk_acc s ev o = true.
Proof. intros s ev o H. unfold pk_acc. destruct (dirt_of_keys _ _); [reflexivity | exact H]. Qed.

(* what the machine can produce is accepted by the checkers: the history, and the observables of
   the final volume (.dat size, the record sequence, needle-map entries, reads at clock 0) *)
Definition read_after (st : vol) (x : N * N) : N * N * out :=
  (fst x, snd x, snd (step st (0, RawRead (fst x) (snd x) false))).
Definition obs_of (st : vol) (fn : list (N * option (N * Z))) (keys : list (N * N)) : fin_obs :=
  {| fo_dat := dat_end st; fo_recs := map rsig_of (rev (recs st)); fo_nm := fn; fo_reads := map (read_after st) keys |}.

Lemma rsig_eqb_refl : forall x, rsig_eqb x x = true.
Proof. intros [[[x1 x2] x3] x4]. unfold rsig_eqb. rewrite !N.eqb_refl. reflexivity. Qed.

Lemma all2_refl : forall (A : Type) (f : A -> A -> bool) l, (forall x, f x x = true) -> all2 f l l = true.
Proof. intros A f l H. induction l as [|x l IH]; [reflexivity|]. cbn [all2]. rewrite H, IH. reflexivity. Qed.

Lemma vol_final_obs : forall st fn keys,
  forallb (nm_entry_eqb st) fn = true -> vol_final (obs_of st fn keys) st = true.
Proof.
  intros st fn keys H. unfold vol_final, obs_of. cbn [fo_dat fo_recs fo_nm fo_reads].
  rewrite N.eqb_refl, (all2_refl _ _ _ rsig_eqb_refl), H. cbn [andb].
  apply forallb_forall. intros x Hx. apply in_map_iff in Hx. destruct Hx as [[id c] [<- _]].
  unfold read_after, read_eqb. cbn [fst snd]. apply out_eqb_refl.
Qed.

Theorem machine_admitted : forall a b stop sched m keys fn,
  mrun (minit (init_flags a b) stop) sched = Some m -> complete m = true ->
  forallb (nm_entry_eqb (m_vol m)) fn = true ->
  lin_check_vol a b (obs_of (m_vol m) fn keys) (history m) = true /\
  (conc_ok (map o_op (history m)) = true ->
   lin_check_reg a b (map (read_after (m_vol m)) keys) (history m) = true) /\
  (wf_history (map o_op (history m)) = true ->
   lin_check_pk a b (map (read_after (m_vol m)) keys) (history m) = true).
Proof.
  intros a b stop sched m keys fn Hrun Hc Hfn. split; [|split].
  - apply lin_check_vol_complete. eapply linearizable_weaken; [|eapply machine_linearizable; eauto].
    cbv beta. intros s ->. apply vol_final_obs. exact Hfn.
  - intro Hok. apply lin_check_reg_complete.
    eapply linearizable_weaken; [|exact (machine_linearizable_reg a b stop sched m Hrun Hc Hok)].
    cbv beta. intros sp Hag. unfold agrees_on. apply forallb_forall.
    intros x Hx. apply in_map_iff in Hx. destruct Hx as [[id c] [<- _]]. unfold read_after. cbn [fst snd].
    apply Hag.
  - intro Hok. apply lin_check_pk_complete.
    eapply linearizable_weaken; [|exact (machine_linearizable_pk a b stop sched m Hrun Hc Hok)].
    cbv beta. intros s Hag. unfold agrees_on_pk. apply forallb_forall.
    intros x Hx. apply in_map_iff in Hx. destruct Hx as [[id c] [<- _]]. unfold read_after. cbn [fst snd].
    destruct (dirt_get (pk_dirt s) id) eqn:Hd; [reflexivity|]. apply Hag. exact Hd.
Qed.

(* ================= Part 6: witnesses ================= *)
Definition final_of (a b stop : bool) (sched : list label) : mstate :=
  match mrun (minit (init_flags a b) stop) sched with Some m => m | None => minit (init_flags a b) stop end.

(* without the non-empty-payload hypothesis (C01 finding 0) the register statement fails: a
   sequential schedule, a write of zero bytes with cookie 5, then a read with cookie 6 *)
Definition sched_empty : list label :=
  [LInv 0 (CWrite (tombstone 1 5) false); LEnter 0 0; LApply 0 0; LRes 0;
   LInv 1 (CRead 1 6 false); LEnter 1 0; LApply 1 0; LRes 1].

Lemma register_refuted :
  exists stop sched m,
    mrun (minit (init_flags false false) stop) sched = Some m /\ complete m = true /\
    wf_history (map o_op (history m)) = true /\ pairwise_nc (needles_of (map o_op (history m))) = true /\
    ~ linearizable reg_nxt reg_acc0 (spec_flags false false) (fun _ => True) (history m) /\
    ~ linearizable reg_nxt reg_acc (spec_flags false false) (fun _ => True) (history m) /\
    conc_finding (map o_op (history m)) = Some 0.
Proof.
  exists false, sched_empty, (final_of false false false sched_empty).
  split; [vm_compute; reflexivity|]. split; [vm_compute; reflexivity|].
  split; [vm_compute; reflexivity|]. split; [vm_compute; reflexivity|].
  assert (N0 : ~ linearizable reg_nxt reg_acc0 (spec_flags false false) (fun _ => True)
                 (history (final_of false false false sched_empty))).
  { intro H. apply (lin_check_complete reg_nxt reg_acc0 (spec_flags false false) (fun _ => True) (fun _ => true)) in H; [|auto].
    vm_compute in H. discriminate. }
  split; [exact N0|]. split; [|vm_compute; reflexivity].
  intro H. apply N0. apply reg_lin_weaken. exact H.
Qed.

Definition ex_needle (id cookie b : N) : needle :=
  {| n_id := id; n_cookie := cookie; n_data := [b]; n_flags := 0; n_name := []; n_mime := []; n_pairs := [];
     n_lastmod := 0; n_ttl := (0, 0) |}.

(* hand-made histories: what a correct call would have answered *)
Definition hW (id inv res : N) (n : needle) : orec event out :=
  mk_orec id inv res (0, Write n) (OWrite ENone false (needle_size n)).
Definition hR (id inv res : N) (n : needle) (c : N) : orec event out :=
  mk_orec id inv res (0, RawRead (n_id n) c false) (ORead ENone (Z.of_N (blen (n_data n))) (exp_view n)).
Definition hD (id inv res key c : N) (z : Z) : orec event out :=
  mk_orec id inv res (0, RawDelete key c) (ODelete ENone z).

(* the checkers do say no.  (a) a read that returns the first of two completed writes: rejected
   when it starts after the second write has returned, accepted when it overlaps it *)
Definition h_stale (r_inv : N) : hist :=
  [hW 0 0 1 (ex_needle 1 5 65); hW 1 3 5 (ex_needle 1 5 66); hR 2 r_inv 9 (ex_needle 1 5 65) 5].

Lemma stale_read_rejected :
  lin_check_reg false false [] (h_stale 6) = false /\
  lin_check vol_nxt vol_acc init (fun _ => true) (h_stale 6) = false /\
  lin_check_reg false false [] (h_stale 4) = true /\
  lin_check vol_nxt vol_acc init (fun _ => true) (h_stale 4) = true.
Proof. vm_compute. repeat split; reflexivity. Qed.

(* (b) two overlapping deletes of one live needle that BOTH return its size (what the seeded change
   C38-a -- syncDelete under RLock -- produces): rejected by both checkers, not linearizable;
   C01's first-round acceptance (error classes only) would have let it pass *)
Definition h_double_delete (z2 : Z) : hist :=
  [hW 0 0 1 (ex_needle 1 5 65); hD 1 2 5 1 5 6%Z; hD 2 3 6 1 5 z2].

Lemma double_delete_rejected :
  lin_check_reg false false [] (h_double_delete 6%Z) = false /\
  lin_check vol_nxt vol_acc init (fun _ => true) (h_double_delete 6%Z) = false /\
  lin_check reg_nxt reg_acc0 spec_init (fun _ => true) (h_double_delete 6%Z) = true /\
  lin_check_reg false false [] (h_double_delete 0%Z) = true /\
  lin_check vol_nxt vol_acc init (fun _ => true) (h_double_delete 0%Z) = true.
Proof. vm_compute. repeat split; reflexivity. Qed.

Lemma double_delete_not_linearizable :
  ~ linearizable reg_nxt reg_acc spec_init (fun _ => True) (h_double_delete 6%Z).
Proof.
  intro H. apply (lin_check_complete reg_nxt reg_acc spec_init (fun _ => True) (fun _ => true)) in H; [|auto].
  vm_compute in H. discriminate.
Qed.

(* (c) per key: an empty-payload write on key 1 (finding 0) excuses the wrong-cookie read of key 1,
   but not a stale read of key 2 in the same history *)
Definition h_two_keys (stale : bool) : hist :=
  [mk_orec 0 0 1 (0, Write (tombstone 1 5)) (OWrite ENone false 0);
   mk_orec 1 2 3 (0, RawRead 1 6 false) (ORead ENone 0%Z (blank_view 6));
   hW 2 4 5 (ex_needle 2 7 65); hW 3 6 7 (ex_needle 2 7 66);
   hR 4 8 9 (ex_needle 2 7 (if stale then 65 else 66)) 7].

Lemma per_key_not_excused :
  lin_check_reg false false [] (h_two_keys false) = false /\
  lin_check_pk false false [] (h_two_keys false) = true /\
  lin_check_pk false false [] (h_two_keys true) = false /\
  conc_finding (map o_op (h_two_keys true)) = Some 0.
Proof. vm_compute. repeat split; reflexivity. Qed.

(* non-vacuity: both write paths, a batch of two whose order in the channel is not the order
   of the invocations, a read overlapping the batch, a delete, a second key *)
Definition sched_example : list label :=
  [LInv 0 (CWrite (ex_needle 1 5 65) true); LInv 1 (CWrite (ex_needle 1 5 66) true); LInv 2 (CRead 1 5 false);
   LEnter 0 0; LEnter 1 0; LSend 1; LSend 0; LRecv; LDecide; LRecv; LDecide; LEnter 2 0; LLock;
   LWApply 0; LInv 4 (CWrite (ex_needle 2 7 67) true); LWApply 0; LSync; LSubmit; LRes 1; LSubmit; LUnlock;
   LApply 2 0; LRes 0; LRes 2; LInv 3 (CDelete 1 5); LEnter 3 0; LApply 3 0; LRes 3;
   LStop; LEnter 4 0; LSend 4; LRecv; LDecide; LLock; LWApply 0; LSync; LSubmit; LUnlock; LRes 4;
   LInv 5 (CRead 1 5 false); LInv 6 (CRead 2 7 false); LEnter 6 0; LEnter 5 0; LApply 6 0; LApply 5 0; LRes 5; LRes 6].

Lemma example_ok :
  let m := final_of false false true sched_example in
  mrun (minit (init_flags false false) true) sched_example = Some m /\ complete m = true /\
  conc_ok (map o_op (history m)) = true /\
  map (fun a => (o_id a, o_inv a, o_res a)) (history m) =
    [(5, 39, 45); (6, 40, 46); (4, 14, 38); (3, 24, 27); (2, 2, 23); (0, 0, 22); (1, 1, 18)] /\
  map (fun a => match o_out a with ORead e _ v => Some (err_eqb e ENone, v_data v) | _ => None end) (history m) =
    [Some (false, []); Some (true, [67]); None; None; Some (true, [65]); None; None] /\
  map (fun a => match o_out a with ODelete _ z => Some z | _ => None end) (history m) =
    [None; None; None; Some 6%Z; None; None; None] /\
  lin_check_reg false false (map (read_after (m_vol m)) [(1, 5); (2, 7)]) (history m) = true /\
  lin_check_pk false false (map (read_after (m_vol m)) [(1, 5); (2, 7)]) (history m) = true /\
  lin_check_vol false false (obs_of (m_vol m) [(1, Some (48, (-6)%Z)); (2, Some (120, 6%Z)); (3, None)] [(1, 5); (2, 7)]) (history m) = true.
Proof. vm_compute. repeat split; reflexivity. Qed.

(* a volume loaded read-only (noWriteOrDelete): the write and the delete are refused before any
   lock (LEnter), the read finds nothing; overlapping calls *)
Definition sched_ro : list label :=
  [LInv 0 (CWrite (ex_needle 1 5 65) true); LInv 1 (CDelete 1 5); LInv 2 (CRead 1 5 false);
   LEnter 1 0; LEnter 0 0; LEnter 2 0; LApply 2 0; LRes 0; LRes 2; LRes 1].

Lemma example_ro_ok :
  let m := final_of true false true sched_ro in
  mrun (minit (init_flags true false) true) sched_ro = Some m /\ complete m = true /\
  map o_out (history m) =
    [ORead ENotFound (-1)%Z (blank_view 5); OWrite EReadOnly false 0; ODelete EReadOnly 0%Z] /\
  lin_check_reg true false (map (read_after (m_vol m)) [(1, 5)]) (history m) = true /\
  lin_check_vol true false (obs_of (m_vol m) [(1, None)] [(1, 5)]) (history m) = true /\
  lin_check_vol false false (obs_of (m_vol m) [(1, None)] [(1, 5)]) (history m) = false.
Proof. vm_compute. repeat split; reflexivity. Qed.
