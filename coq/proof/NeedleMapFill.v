(* C05 proofs, part 10: long inputs in closed form.
   - [fill_run]: n Puts of ascending keys into an empty CompactMap leave exactly the one
     section [fill_cm] (all results RSet 0 0), for every n up to the section capacity; so a
     history "fill ++ tail" can be evaluated from [fill_cm] ([fill_then_run]).  check/C05.v uses
     this for the case that fills a section to the real capacity 100000.
   - the readers of an index file evaluated on its entry list ([ldb_load_entries],
     [sorted_entries], [metric_entries_o]) equal the byte-level model on [encode osz es]. *)
From Coq Require Import List NArith ZArith Bool Lia Sorted Arith.
From Coq Require Import ZifyBool ZifyN ZifyNat.
From SW Require Import model.NeedleMap proof.EcIndexProofs proof.NeedleMapSearch proof.NeedleMapSec
  proof.NeedleMapCm proof.NeedleMapRefine.
Import ListNotations.
Local Open Scope N_scope.
Ltac Zify.zify_post_hook ::= Z.div_mod_to_equations.

(* ---------- the values of a filled section ---------- *)
Lemma fill_vals_len : forall n i step, length (fill_vals_from i n step) = n.
Proof. induction n as [|n IH]; intros; simpl; [reflexivity|]. rewrite IH. reflexivity. Qed.

Lemma fill_vals_snoc : forall n i step,
  fill_vals_from i (S n) step =
  fill_vals_from i n step ++ [mk_sval ((i + N.of_nat n) * step) (i + N.of_nat n + 1) (fill_size (i + N.of_nat n))].
Proof.
  induction n as [|n IH]; intros i step.
  - cbn [fill_vals_from app]. replace (i + N.of_nat 0) with i by lia. reflexivity.
  - change (fill_vals_from i (S (S n)) step) with
      (mk_sval (i * step) (i + 1) (fill_size i) :: fill_vals_from (i + 1) (S n) step).
    rewrite IH. cbn [fill_vals_from app].
    replace (i + 1 + N.of_nat n) with (i + N.of_nat (S n)) by lia. reflexivity.
Qed.

Lemma fill_vals_keys : forall n i step x, In x (fill_vals_from i n step) ->
  i * step <= sk x /\ sk x + step <= (i + N.of_nat n) * step.
Proof.
  induction n as [|n IH]; intros i step x H; simpl in H; [contradiction|].
  destruct H as [<-|H].
  - cbn [mk_sval sk]. nia.
  - apply IH in H. nia.
Qed.

Lemma fill_vals_sorted : forall n i step, 0 < step -> sorted (fill_vals_from i n step).
Proof.
  induction n as [|n IH]; intros i step Hs; [constructor|].
  cbn [fill_vals_from]. constructor; [apply IH; assumption|].
  rewrite Forall_forall. intros x Hx. apply fill_vals_keys in Hx. cbn [mk_sval sk]. nia.
Qed.

Lemma lb_rec_all_lt : forall l k, Forall (fun x => sk x < k) l -> lb_rec l k = length l.
Proof.
  induction l as [|v r IH]; intros k H; [reflexivity|]. inversion H as [|? ? Hv Hr]; subst.
  cbn [lb_rec length]. destruct (N.ltb_spec (sk v) k); [|lia]. rewrite IH by assumption. reflexivity.
Qed.

(* ---------- CompactSection.Set of a key above every stored one, with room left ---------- *)
Lemma sec_set_append : forall batch s key off size,
  sorted (s_values s) ->
  Forall (fun x => sk x < u32 (sub64 key (s_start s))) (s_values s) ->
  N.of_nat (length (s_values s)) < batch ->
  sec_set batch s key off size =
  ({| s_start := s_start s; s_end := (if s_end s <? key then key else s_end s);
      s_values := s_values s ++ [mk_sval (u32 (sub64 key (s_start s))) off size];
      s_overflow := s_overflow s |}, 0, 0%Z).
Proof.
  intros batch s key off size Hs Hall Hcnt. unfold sec_set.
  set (skey := u32 (sub64 key (s_start s))) in *.
  rewrite bsv_rec by assumption. cbv zeta. rewrite (lb_rec_all_lt _ _ Hall), Nat.eqb_refl.
  assert (Hb : (batch <=? N.of_nat (length (s_values s))) = false) by (apply N.leb_gt; assumption).
  rewrite Hb. cbn [orb].
  assert (Hneed : ((0 <? length (s_values s))%nat && (skey <? key_at (s_values s) (length (s_values s) - 1))) = false).
  { destruct (Nat.ltb_spec 0 (length (s_values s))) as [Hpos|]; [|reflexivity]. cbn [andb].
    apply N.ltb_ge. rewrite Forall_forall in Hall. apply N.lt_le_incl. apply Hall.
    unfold key_at. apply nth_In. lia. }
  rewrite Hneed. reflexivity.
Qed.

Lemma sub64_self : forall a, a < two64 -> sub64 a a = 0.
Proof. intros a H. rewrite sub64_exact by lia. lia. Qed.

Lemma u32_0 : u32 0 = 0.
Proof. reflexivity. Qed.

(* ---------- one more ascending key ---------- *)
Lemma cm_set_fill : forall batch base step i,
  0 < step -> i < batch -> i * step <= sec_lim -> base + i * step < two64 ->
  cm_set batch (fill_cm base step i) (base + i * step) (i + 1) (fill_size i) =
  (fill_cm base step (i + 1), 0, 0%Z).
Proof.
  intros batch base step i Hstep Hib Hspan H64.
  destruct (N.eq_dec i 0) as [->|Hi].
  - (* the first key: a new section *)
    replace (base + 0 * step) with base in * by lia.
    unfold fill_cm. cbn [N.eqb N.add]. change (0 + 1 =? 0) with false. cbv iota.
    unfold cm_set, locate, bscs. cbn [length Z.of_nat Z.sub Z.ltb Z.compare Z.opp Z.add Z.pos_sub orb rev shift_count Nat.sub].
    unfold insert_at. cbn [firstn skipn app nth].
    rewrite sec_set_append.
    + cbn [new_section s_start s_end s_values s_overflow app]. rewrite sub64_self, u32_0 by assumption.
      unfold set_nth. cbn [firstn skipn app].
      replace (if 0 <? base then base else 0) with base by (destruct (N.ltb_spec 0 base); lia).
      replace (base + (1 - 1) * step) with base by lia.
      change (N.to_nat 1) with 1%nat. cbn [fill_vals_from]. replace (0 * step) with 0 by lia. reflexivity.
    + constructor.
    + constructor.
    + cbn [new_section s_values length N.of_nat]. lia.
  - (* a later key: appended to the section *)
    unfold fill_cm. destruct (N.eqb_spec i 0) as [|_]; [contradiction|].
    destruct (N.eqb_spec (i + 1) 0) as [|_]; [lia|].
    set (S0 := {| s_start := base; s_end := base + (i - 1) * step;
                  s_values := fill_vals_from 0 (N.to_nat i) step; s_overflow := [] |}).
    assert (Hlen : length (s_values S0) = N.to_nat i) by apply fill_vals_len.
    assert (Hsub : sub64 (base + i * step) base = i * step) by (rewrite sub64_exact by lia; lia).
    assert (Hloc : locate batch [S0] (base + i * step) = Some 0%nat).
    { assert (H1 : (base <=? base + i * step) = true) by (apply N.leb_le; lia).
      assert (H2 : (counter S0 <? batch) = true).
      { unfold counter. rewrite Hlen. apply N.ltb_lt. lia. }
      assert (H3 : (sec_lim <? i * step) = false) by (apply N.ltb_ge; assumption).
      unfold locate, bscs.
      change (Z.of_nat (length [S0]) - 1)%Z with 0%Z.
      change (sec_at [S0] 0%Z) with S0.
      change (0 <? 0)%Z with false. cbv iota.
      change (s_start S0) with base.
      rewrite H1, H2. cbn [orb]. change (0 <? 0)%Z with false. cbn [orb].
      change (sec_at [S0] 0%Z) with S0. change (s_start S0) with base.
      rewrite Hsub, H3. reflexivity. }
    unfold cm_set. rewrite Hloc. cbn [nth].
    rewrite sec_set_append.
    + cbn [S0 s_start s_end s_values s_overflow]. rewrite Hsub, (u32_small (i * step)) by assumption.
      unfold set_nth. cbn [firstn skipn app].
      assert (He : (base + (i - 1) * step <? base + i * step) = true) by (apply N.ltb_lt; nia).
      rewrite He. replace (i + 1 - 1) with i by lia.
      replace (N.to_nat (i + 1)) with (S (N.to_nat i)) by lia.
      rewrite fill_vals_snoc. replace (0 + N.of_nat (N.to_nat i)) with i by lia. reflexivity.
    + apply fill_vals_sorted. assumption.
    + cbn [S0 s_start s_values]. rewrite Hsub, (u32_small (i * step)) by assumption.
      rewrite Forall_forall. intros x Hx. apply fill_vals_keys in Hx.
      replace (0 + N.of_nat (N.to_nat i)) with i in Hx by lia. nia.
    + rewrite Hlen. lia.
Qed.

(* ---------- the whole fill ---------- *)
Lemma cm_run_cons : forall batch cm o ops,
  cm_run batch cm (o :: ops) =
  (snd (cm_step batch cm o) :: fst (cm_run batch (fst (cm_step batch cm o)) ops),
   snd (cm_run batch (fst (cm_step batch cm o)) ops)).
Proof.
  intros. cbn [cm_run]. destruct (cm_step batch cm o) as [cm' r]. cbn [fst snd].
  destruct (cm_run batch cm' ops). reflexivity.
Qed.

Lemma cm_run_app : forall batch a cm b,
  cm_run batch cm (a ++ b) =
  (fst (cm_run batch cm a) ++ fst (cm_run batch (snd (cm_run batch cm a)) b),
   snd (cm_run batch (snd (cm_run batch cm a)) b)).
Proof.
  induction a as [|o a IH]; intros cm b.
  - cbn [app cm_run fst snd]. destruct (cm_run batch cm b). reflexivity.
  - cbn [app]. rewrite !cm_run_cons. cbn [fst snd]. rewrite IH. reflexivity.
Qed.

Lemma cm_run_fill_from : forall batch base step m i,
  0 < step -> i + N.of_nat m <= batch ->
  (i + N.of_nat m) * step <= sec_lim + step -> base + (i + N.of_nat m) * step < two64 + step ->
  cm_run batch (fill_cm base step i) (fill_ops_from i m base step) =
  (repeat (RSet 0 0%Z) m, fill_cm base step (i + N.of_nat m)).
Proof.
  induction m as [|m IH]; intros i Hstep Hb Hspan H64.
  - cbn [fill_ops_from cm_run repeat]. replace (i + N.of_nat 0) with i by lia. reflexivity.
  - cbn [fill_ops_from]. rewrite cm_run_cons. unfold cm_step.
    rewrite cm_set_fill by nia. cbn [fst snd].
    rewrite IH by (try assumption; nia).
    cbn [fst snd repeat]. replace (i + 1 + N.of_nat m) with (i + N.of_nat (S m)) by lia. reflexivity.
Qed.

Theorem fill_run : forall batch base step n, fill_ok batch base step n = true ->
  cm_run batch [] (fill_ops base step n) = (repeat (RSet 0 0%Z) (N.to_nat n), fill_cm base step n).
Proof.
  intros batch base step n H. unfold fill_ok in H.
  apply andb_true_iff in H. destruct H as [H H4]. apply andb_true_iff in H. destruct H as [H H3].
  apply andb_true_iff in H. destruct H as [H1 H2].
  apply N.ltb_lt in H1, H4. apply N.leb_le in H2, H3.
  unfold fill_ops. change (@nil section) with (fill_cm base step 0).
  rewrite cm_run_fill_from by (try assumption; lia).
  replace (0 + N.of_nat (N.to_nat n)) with n by lia. reflexivity.
Qed.

Theorem fill_then_run : forall batch base step n tail, fill_ok batch base step n = true ->
  cm_run batch [] (fill_ops base step n ++ tail) =
  (repeat (RSet 0 0%Z) (N.to_nat n) ++ fst (cm_run batch (fill_cm base step n) tail),
   snd (cm_run batch (fill_cm base step n) tail)).
Proof.
  intros. rewrite cm_run_app, fill_run by assumption. reflexivity.
Qed.

(* ---------- the readers of an index file on its entry list ---------- *)
Lemma ldb_load_encode : forall osz es ans, ok_osz osz -> Forall (wf_entry osz) es ->
  l_db (ldb_load osz (encode osz es)) = ldb_load_entries es /\
  write_sorted_from_idx osz (encode osz es) = encode osz (sorted_entries es) /\
  metric_from_index_o osz (encode osz es) ans = metric_entries_o es ans.
Proof.
  intros osz es ans Ho Hw.
  unfold ldb_load, write_sorted_from_idx, read_needle_map, metric_from_index_o, ldb_load_entries,
    sorted_entries, metric_entries_o. cbn [l_db].
  rewrite walk_encode by assumption. repeat split.
Qed.

(* ---------- the reference map after the fill ---------- *)
Lemma ref_get_above : forall r k, Forall (fun kv : N * (N * Z) => fst kv < k) r -> ref_get r k = None.
Proof.
  induction r as [|[k' v] r IH]; intros k H; [reflexivity|]. inversion H as [|? ? Hk Hr]; subst.
  cbn [ref_get]. cbn [fst] in Hk. destruct (N.eqb_spec k k'); [lia|]. apply IH. assumption.
Qed.
Lemma ref_remove_above : forall r k, Forall (fun kv : N * (N * Z) => fst kv < k) r -> ref_remove r k = r.
Proof.
  induction r as [|[k' v] r IH]; intros k H; [reflexivity|]. inversion H as [|? ? Hk Hr]; subst.
  unfold ref_remove in *. cbn [filter fst]. cbn [fst] in Hk.
  destruct (N.eqb_spec k' k); [lia|]. cbn [negb]. rewrite IH by assumption. reflexivity.
Qed.

Lemma ref_run_fill_from : forall m i base step acc, 0 < step ->
  Forall (fun kv : N * (N * Z) => fst kv < base + i * step) acc ->
  ref_run acc (fill_ops_from i m base step) = (repeat (RSet 0 0%Z) m, fill_ref_from i m base step acc).
Proof.
  induction m as [|m IH]; intros i base step acc Hs Hacc; [reflexivity|].
  cbn [fill_ops_from ref_run ref_step fill_ref_from repeat].
  rewrite (ref_get_above _ _ Hacc). unfold ref_put. rewrite (ref_remove_above _ _ Hacc).
  rewrite IH; [reflexivity|assumption|].
  constructor; [cbn [fst]; nia|].
  rewrite Forall_forall in *. intros x Hx. specialize (Hacc x Hx). nia.
Qed.

Theorem ref_run_fill : forall base step n, 0 < step ->
  ref_run [] (fill_ops base step n) = (repeat (RSet 0 0%Z) (N.to_nat n), fill_ref base step n).
Proof. intros. unfold fill_ops, fill_ref. apply ref_run_fill_from; [assumption|constructor]. Qed.

Lemma ref_run_app : forall a r b,
  ref_run r (a ++ b) =
  (fst (ref_run r a) ++ fst (ref_run (snd (ref_run r a)) b), snd (ref_run (snd (ref_run r a)) b)).
Proof.
  induction a as [|o a IH]; intros r b.
  - cbn [app ref_run fst snd]. destruct (ref_run r b). reflexivity.
  - cbn [app ref_run]. destruct (ref_step r o) as [r' x]. rewrite IH.
    destruct (ref_run r' a) as [rs fin]. cbn [fst snd].
    destruct (ref_run fin b). reflexivity.
Qed.

(* a history "fill ++ tail": the model from [fill_cm] and the reference from [fill_ref], on the
   tail alone (what check/C05.v evaluates for the case that fills a section to capacity) *)
Theorem fill_then_run_both : forall batch base step n tail, fill_ok batch base step n = true ->
  cm_run batch [] (fill_ops base step n ++ tail) =
    (repeat (RSet 0 0%Z) (N.to_nat n) ++ fst (cm_run batch (fill_cm base step n) tail),
     snd (cm_run batch (fill_cm base step n) tail)) /\
  ref_run [] (fill_ops base step n ++ tail) =
    (repeat (RSet 0 0%Z) (N.to_nat n) ++ fst (ref_run (fill_ref base step n) tail),
     snd (ref_run (fill_ref base step n) tail)).
Proof.
  intros batch base step n tail H. split; [apply fill_then_run; assumption|].
  assert (Hs : 0 < step).
  { unfold fill_ok in H. repeat (apply andb_true_iff in H; destruct H as [H ?]). apply N.ltb_lt. assumption. }
  rewrite ref_run_app, ref_run_fill by assumption. reflexivity.
Qed.

(* the long index file of check/C05.v, on its entry list *)
Theorem long_index_readers : forall osz head base step n tail ans, ok_osz osz ->
  Forall (wf_entry osz) (long_entries head base step n tail) ->
  let es := long_entries head base step n tail in
  l_db (ldb_load osz (encode osz es)) = ldb_load_entries es /\
  write_sorted_from_idx osz (encode osz es) = encode osz (sorted_entries es) /\
  metric_from_index_o osz (encode osz es) ans = metric_entries_o es ans.
Proof. intros. apply ldb_load_encode; assumption. Qed.

(* ---------- non-vacuity example of props/C05.v ---------- *)
Definition c05_ex : list op :=
  [Put 4294967301 1099511627775 7%Z; Put 5 1 10%Z; Put 3 4294967296 20%Z; Put 100000 9 30%Z;
   Del 3 12; Get 3; Get 5; Get 4294967301; Get 8589934597].
Lemma c05_example_holds :
  ok_osz 5 /\ keys_ok c05_ex /\ forallb (op_in_range 5) c05_ex = true /\
  disciplined c05_ex = true /\ trig_empty_put c05_ex = false /\ trig_rewrite c05_ex = false /\
  length (snd (cm_run 100000 [] c05_ex)) = 3%nat /\
  fst (cm_run 100000 [] c05_ex) =
    [RSet 0 0%Z; RSet 0 0%Z; RSet 0 0%Z; RSet 0 0%Z; RDel 20%Z;
     RGet (Some (3, 4294967296, (-20)%Z)); RGet (Some (5, 1, 10%Z));
     RGet (Some (4294967301, 1099511627775, 7%Z)); RGet None] /\
  ref_metric c05_ex = {| m_del := 1; m_file := 4; m_delb := 20; m_fileb := 67; m_max := 4294967301 |}.
Proof.
  split; [right; reflexivity|]. split; [repeat constructor; vm_compute; reflexivity|].
  repeat split; vm_compute; reflexivity.
Qed.

(* a rewritten history (finding 1's witness): the closed form of the recomputed counters *)
Definition c05_ex_rewrite : list op :=
  [Put 1 1 10%Z; Put 1 2 20%Z; Put 2 3 30%Z; Del 2 4; Put 2 5 40%Z].
Lemma c05_example_rewrite_holds :
  forallb (op_in_range 4) c05_ex_rewrite = true /\ disciplined c05_ex_rewrite = true /\
  trig_empty_put c05_ex_rewrite = false /\ trig_rewrite c05_ex_rewrite = true /\
  ref_metric c05_ex_rewrite = {| m_del := 2; m_file := 4; m_delb := 40; m_fileb := 100; m_max := 2 |} /\
  reload_metric c05_ex_rewrite (ref_metric c05_ex_rewrite) =
    {| m_del := 3; m_file := 2; m_delb := 40; m_fileb := 100; m_max := 2 |} /\
  fill_ok 100000 0 2 100000 = true.
Proof. repeat split; vm_compute; reflexivity. Qed.
