(* Proofs about model/Chunks.v (C17). *)
From Coq Require Import List NArith Bool Arith Lia Permutation Sorted.
From Coq Require Import ZifyBool ZifyN ZifyNat.
From SW Require Import model.Chunks.
Import ListNotations.
Local Open Scope N_scope.

(* ================================================================== *)
(* generic list facts                                                  *)
(* ================================================================== *)
Lemma ss_app : forall {A} (R : A -> A -> Prop) l1 l2,
  StronglySorted R (l1 ++ l2) <->
  StronglySorted R l1 /\ StronglySorted R l2 /\ (forall a b, In a l1 -> In b l2 -> R a b).
Proof.
  intros A R l1 l2. induction l1 as [|x l1 IH]; simpl.
  - split; [intros H; repeat split; auto; [constructor | intros ? ? []] | tauto].
  - split.
    + intros H. inversion H as [|? ? Hs Hf]; subst. apply IH in Hs. destruct Hs as [H1 [H2 H3]].
      rewrite Forall_forall in Hf. repeat split; auto.
      * constructor; auto. apply Forall_forall. intros y Hy. apply Hf. apply in_or_app. auto.
      * intros a b [Ha|Ha] Hb; subst; auto. apply Hf. apply in_or_app. auto.
    + intros [H1 [H2 H3]]. inversion H1 as [|? ? Hs Hf]; subst. constructor.
      * apply IH. repeat split; auto.
      * rewrite Forall_forall in *. intros y Hy. apply in_app_or in Hy. destruct Hy; auto.
Qed.

Lemma ss_rev : forall {A} (R : A -> A -> Prop) l,
  StronglySorted R l -> StronglySorted (fun a b => R b a) (rev l).
Proof.
  intros A R l H. induction H as [|x l Hs IH Hf]; simpl; [constructor|].
  apply ss_app. repeat split; auto.
  - constructor; [constructor|constructor].
  - intros a b Ha [Hb|[]]; subst. rewrite Forall_forall in Hf. apply Hf. apply in_rev. auto.
Qed.

Lemma ss_in_cons : forall {A} (R : A -> A -> Prop) x l y,
  StronglySorted R (x :: l) -> In y l -> R x y.
Proof.
  intros A R x l y H Hy. inversion H as [|? ? _ Hf]; subst. rewrite Forall_forall in Hf. auto.
Qed.

Lemma filter_perm_partition : forall {A} (f : A -> bool) l,
  Permutation (filter f l ++ filter (fun x => negb (f x)) l) l.
Proof.
  intros A f l. induction l as [|x l IH]; simpl; auto.
  destruct (f x); simpl.
  - constructor. auto.
  - eapply perm_trans; [apply Permutation_sym, Permutation_middle|]. constructor. auto.
Qed.

Lemma partition_filter : forall {A} (f : A -> bool) l,
  partition f l = (filter f l, filter (fun x => negb (f x)) l).
Proof.
  intros A f l. induction l as [|x l IH]; simpl; auto.
  rewrite IH. destruct (f x); reflexivity.
Qed.

Lemma NoDup_map_inj : forall {A B} (f : A -> B) l a b,
  NoDup (map f l) -> In a l -> In b l -> f a = f b -> a = b.
Proof.
  intros A B f l. induction l as [|x l IH]; simpl; intros a b Hn Ha Hb E; [tauto|].
  inversion Hn as [|? ? Hx Hn']; subst.
  destruct Ha as [Ha|Ha], Hb as [Hb|Hb]; subst; auto.
  - exfalso. apply Hx. rewrite E. apply in_map. auto.
  - exfalso. apply Hx. rewrite <- E. apply in_map. auto.
Qed.

Lemma NoDup_map_filter : forall {A B} (f : A -> B) (g : A -> bool) l,
  NoDup (map f l) -> NoDup (map f (filter g l)).
Proof.
  intros A B f g l. induction l as [|x l IH]; simpl; intros H; auto.
  inversion H as [|? ? Hx Hn]; subst.
  destruct (g x); simpl; auto. constructor; auto.
  intro Hin. apply Hx. apply in_map_iff in Hin. destruct Hin as [y [E Hy]].
  apply filter_In in Hy. apply in_map_iff. exists y. tauto.
Qed.

(* ================================================================== *)
(* sorted lists of disjoint non-empty intervals                        *)
(* ================================================================== *)
Section Intervals.
  Context {A : Type} (lo hi : A -> N).
  Definition icov (a : A) (p : N) : bool := (lo a <=? p) && (p <? hi a).
  Definition iok (l : list A) : Prop :=
    StronglySorted (fun a b => hi a <= lo b) l /\ Forall (fun a => lo a < hi a) l.

  Lemma iok_nil : iok [].
  Proof. split; constructor. Qed.

  Lemma iok_tail : forall x l, iok (x :: l) -> iok l.
  Proof. intros x l [H1 H2]. inversion H1; inversion H2; subst. split; auto. Qed.

  Lemma ifind_unique : forall l a p, iok l -> In a l -> icov a p = true ->
    find (fun x => icov x p) l = Some a.
  Proof.
    induction l as [|x l IH]; intros a p Hok Hin Hc; simpl in *; [tauto|].
    destruct (icov x p) eqn:Ex.
    - destruct Hin as [Hin|Hin]; subst; auto. exfalso.
      destruct Hok as [Hs _]. pose proof (ss_in_cons _ _ _ _ Hs Hin) as Hle. simpl in Hle.
      unfold icov in *. lia.
    - destruct Hin as [Hin|Hin]; subst; [congruence|]. apply IH; auto. eapply iok_tail; eauto.
  Qed.

  Lemma ifind_none : forall l p, (forall a, In a l -> icov a p = false) ->
    find (fun x => icov x p) l = None.
  Proof.
    induction l as [|x l IH]; intros p H; simpl; auto.
    rewrite (H x) by (left; auto). apply IH. intros a Ha. apply H. right. auto.
  Qed.

  Lemma ifind_some : forall l p a, find (fun x => icov x p) l = Some a -> In a l /\ icov a p = true.
  Proof. intros l p a H. apply find_some in H. auto. Qed.
End Intervals.

(* ================================================================== *)
(* MergeIntoVisibles                                                   *)
(* ================================================================== *)
Definition vis_ok (vs : list visible_interval) : Prop := iok v_start v_stop vs.

Lemma vcovers_icov : forall v p, vcovers v p = icov v_start v_stop v p.
Proof. reflexivity. Qed.

Lemma last_visible_none : forall vs, last_visible vs = None -> vs = [].
Proof.
  induction vs as [|x vs IH]; simpl; auto. destruct vs as [|y vs]; [discriminate|].
  intro H. apply IH in H. discriminate.
Qed.

Lemma last_visible_some : forall vs l, last_visible vs = Some l -> exists pre, vs = pre ++ [l].
Proof.
  induction vs as [|x vs IH]; simpl; intros l H; [discriminate|].
  destruct vs as [|y vs].
  - inversion H; subst. exists []. reflexivity.
  - apply IH in H. destruct H as [pre E]. exists (x :: pre). rewrite E. reflexivity.
Qed.

(* every interval of a well-formed list ends no later than the last one *)
Lemma last_is_max : forall pre l v, vis_ok (pre ++ [l]) -> In v (pre ++ [l]) -> v_stop v <= v_stop l.
Proof.
  intros pre l v [Hs Hf] Hin. apply ss_app in Hs. destruct Hs as [_ [_ Hc]].
  apply in_app_or in Hin. destruct Hin as [Hin|[Hin|[]]]; subst; [|lia].
  specialize (Hc v l Hin (or_introl eq_refl)). simpl in Hc.
  rewrite Forall_forall in Hf. assert (Hl : In l (pre ++ [l])) by (apply in_or_app; right; left; auto).
  specialize (Hf l Hl). simpl in Hf. lia.
Qed.

(* --- the pieces of one old interval --- *)
Lemma split_in : forall off stop v w, v_start v < v_stop v -> off <= stop ->
  In w (split_visible off stop v) ->
  v_fid w = v_fid v /\ v_mtime w = v_mtime v /\ v_csize w = v_csize v /\
  v_start v <= v_start w /\ v_stop w <= v_stop v /\ v_start w < v_stop w /\
  (v_stop w <= off \/ stop <= v_start w) /\
  v_coff w + v_start v = v_coff v + v_start w.
Proof.
  intros off stop v w Hne Hos Hin. unfold split_visible in Hin.
  apply in_app_or in Hin. destruct Hin as [Hin|Hin].
  - destruct ((v_start v <? off) && (off <? v_stop v)) eqn:E; [|destruct Hin].
    destruct Hin as [Hin|[]]. subst w. simpl. repeat split; lia.
  - apply in_app_or in Hin. destruct Hin as [Hin|Hin].
    + destruct ((v_start v <? stop) && (stop <? v_stop v)) eqn:E; [|destruct Hin].
      destruct Hin as [Hin|[]]. subst w. simpl. repeat split; lia.
    + destruct ((stop <=? v_start v) || (v_stop v <=? off)) eqn:E; [|destruct Hin].
      destruct Hin as [Hin|[]]. subst w. repeat split; lia.
Qed.

Lemma split_cover : forall off stop v p, v_start v < v_stop v ->
  vcovers v p = true -> (off <=? p) && (p <? stop) = false ->
  exists w, In w (split_visible off stop v) /\ vcovers w p = true.
Proof.
  intros off stop v p Hne Hc Hn. unfold vcovers in Hc. unfold split_visible.
  destruct (N.lt_ge_cases p off) as [Ep|Ep].
  - destruct (N.le_gt_cases (v_stop v) off) as [E1|E1].
    + exists v. split.
      * apply in_or_app. right. apply in_or_app. right.
        replace ((stop <=? v_start v) || (v_stop v <=? off)) with true by lia. simpl. left. auto.
      * unfold vcovers. lia.
    + eexists. split.
      * apply in_or_app. left.
        replace ((v_start v <? off) && (off <? v_stop v)) with true by lia. simpl. left. reflexivity.
      * unfold vcovers. simpl. lia.
  - destruct (N.le_gt_cases stop (v_start v)) as [E1|E1].
    + exists v. split.
      * apply in_or_app. right. apply in_or_app. right.
        replace ((stop <=? v_start v) || (v_stop v <=? off)) with true by lia. simpl. left. auto.
      * unfold vcovers. lia.
    + eexists. split.
      * apply in_or_app. right. apply in_or_app. left.
        replace ((v_start v <? stop) && (stop <? v_stop v)) with true by lia. simpl. left. reflexivity.
      * unfold vcovers. simpl. lia.
Qed.

Lemma split_id : forall off stop v, v_stop v <= off -> off <= stop -> split_visible off stop v = [v].
Proof.
  intros off stop v H1 H2. unfold split_visible.
  replace ((v_start v <? off) && (off <? v_stop v)) with false by lia.
  replace ((v_start v <? stop) && (stop <? v_stop v)) with false by lia.
  replace ((stop <=? v_start v) || (v_stop v <=? off)) with true by lia. reflexivity.
Qed.

Lemma split_sorted : forall off stop v, v_start v < v_stop v -> off <= stop ->
  StronglySorted (fun a b => v_stop a <= v_start b) (split_visible off stop v).
Proof.
  intros off stop v Hne Hos. unfold split_visible.
  destruct ((v_start v <? off) && (off <? v_stop v)) eqn:E1;
  destruct ((v_start v <? stop) && (stop <? v_stop v)) eqn:E2;
  destruct ((stop <=? v_start v) || (v_stop v <=? off)) eqn:E3; simpl;
  try (exfalso; lia);
  repeat (constructor; simpl; try lia).
Qed.

Lemma flat_split_sorted : forall off stop vs, vis_ok vs -> off <= stop ->
  StronglySorted (fun a b => v_stop a <= v_start b) (flat_map (split_visible off stop) vs).
Proof.
  intros off stop vs. induction vs as [|v vs IH]; intros Hok Hos; simpl; [constructor|].
  pose proof Hok as [Hs Hf]. inversion Hf as [|? ? Hv Hf']; subst.
  apply ss_app. repeat split.
  - apply split_sorted; auto.
  - apply IH; auto. eapply iok_tail; eauto.
  - intros a b Ha Hb. apply in_flat_map in Hb. destruct Hb as [v' [Hv' Hb]].
    rewrite Forall_forall in Hf'.
    pose proof (split_in _ _ _ _ Hv Hos Ha) as Pa.
    pose proof (split_in _ _ _ _ (Hf' v' Hv') Hos Hb) as Pb.
    pose proof (ss_in_cons _ _ _ _ Hs Hv') as Hle. simpl in Hle. lia.
Qed.

(* --- the final insertion loop --- *)
Lemma ins_rev_in : forall nv rb w, In w (ins_rev nv rb) <-> w = nv \/ In w rb.
Proof.
  intros nv rb w. induction rb as [|x r IH]; simpl.
  - intuition.
  - destruct (v_start nv <? v_start x); simpl; rewrite ?IH; intuition.
Qed.

Lemma insert_from_back_in : forall nv body w, In w (insert_from_back nv body) <-> w = nv \/ In w body.
Proof.
  intros. unfold insert_from_back. rewrite <- in_rev. rewrite ins_rev_in. rewrite <- in_rev. tauto.
Qed.

Lemma ins_rev_sorted : forall nv rb,
  StronglySorted (fun a b => v_stop b <= v_start a) rb ->
  Forall (fun x => v_start x < v_stop x) rb -> v_start nv < v_stop nv ->
  (forall x, In x rb -> v_stop x <= v_start nv \/ v_stop nv <= v_start x) ->
  StronglySorted (fun a b => v_stop b <= v_start a) (ins_rev nv rb).
Proof.
  intros nv rb Hs. induction Hs as [|x r Hs IH Hf]; intros Hne Hnv Hd; simpl.
  - repeat constructor.
  - inversion Hne as [|? ? Hx Hne']; subst.
    rewrite Forall_forall in Hf, Hne'.
    destruct (v_start nv <? v_start x) eqn:E.
    + constructor.
      * apply IH; auto. { apply Forall_forall; auto. } intros y Hy. apply Hd. right. auto.
      * apply Forall_forall. intros y Hy. apply ins_rev_in in Hy. destruct Hy as [Hy|Hy]; subst; auto.
        destruct (Hd x (or_introl eq_refl)); lia.
    + constructor; [constructor; auto; apply Forall_forall; auto|].
      apply Forall_forall. intros y [Hy|Hy]; subst.
      * destruct (Hd y (or_introl eq_refl)); lia.
      * specialize (Hf y Hy). specialize (Hne' y Hy). simpl in Hf.
        destruct (Hd x (or_introl eq_refl)); lia.
Qed.

(* --- membership in the merged list --- *)
Lemma merge_in : forall vs c w, vis_ok vs -> 0 < c_size c ->
  (In w (merge_into_visibles vs c) <->
   w = new_visible c \/ exists v, In v vs /\ In w (split_visible (c_off c) (c_stop c) v)).
Proof.
  intros vs c w Hok Hsz. unfold merge_into_visibles.
  assert (Hos : c_off c <= c_stop c) by (unfold c_stop; lia).
  assert (Hfast : (forall v, In v vs -> v_stop v <= c_off c) ->
          (In w (vs ++ [new_visible c]) <->
           w = new_visible c \/ exists v, In v vs /\ In w (split_visible (c_off c) (c_stop c) v))).
  { intros Hall. rewrite in_app_iff. simpl. split.
    - intros [H|[H|[]]]; auto. right. exists w. split; auto.
      rewrite split_id; auto. left. auto.
    - intros [H|[v [Hv H]]]; auto. rewrite split_id in H; auto. destruct H as [H|[]]. subst. auto. }
  destruct (last_visible vs) as [l|] eqn:El.
  - destruct (v_stop l <=? c_off c) eqn:E.
    + apply Hfast. intros v Hv. apply last_visible_some in El. destruct El as [pre Ep]. subst vs.
      pose proof (last_is_max pre l v Hok Hv). lia.
    + rewrite insert_from_back_in. rewrite in_flat_map. tauto.
  - apply last_visible_none in El. subst vs. apply Hfast. intros v [].
Qed.

Lemma merge_ok : forall vs c, vis_ok vs -> 0 < c_size c -> vis_ok (merge_into_visibles vs c).
Proof.
  intros vs c Hok Hsz.
  assert (Hos : c_off c <= c_stop c) by (unfold c_stop; lia).
  assert (Hnv : v_start (new_visible c) < v_stop (new_visible c)) by (simpl; unfold c_stop; lia).
  pose proof Hok as [Hs Hf]. rewrite Forall_forall in Hf.
  split.
  - unfold merge_into_visibles.
    assert (Hfast : (forall v, In v vs -> v_stop v <= c_off c) ->
            StronglySorted (fun a b => v_stop a <= v_start b) (vs ++ [new_visible c])).
    { intros Hall. apply ss_app. repeat split; auto.
      - repeat constructor.
      - intros a b Ha [Hb|[]]. subst b. simpl. auto. }
    destruct (last_visible vs) as [l|] eqn:El.
    + destruct (v_stop l <=? c_off c) eqn:E.
      * apply Hfast. intros v Hv. apply last_visible_some in El. destruct El as [pre Ep]. subst vs.
        pose proof (last_is_max pre l v Hok Hv). lia.
      * unfold insert_from_back.
        pose proof (flat_split_sorted (c_off c) (c_stop c) vs Hok Hos) as Hfs.
        apply ss_rev in Hfs.
        assert (Hpieces : forall x, In x (rev (flat_map (split_visible (c_off c) (c_stop c)) vs)) ->
                  v_start x < v_stop x /\ (v_stop x <= c_off c \/ c_stop c <= v_start x)).
        { intros x Hx. apply in_rev in Hx. apply in_flat_map in Hx. destruct Hx as [v [Hv Hx]].
          pose proof (split_in _ _ _ _ (Hf v Hv) Hos Hx). tauto. }
        pose proof (ins_rev_sorted (new_visible c) _ Hfs) as Hir.
        apply ss_rev in Hir.
        -- exact Hir.
        -- apply Forall_forall. intros x Hx. apply Hpieces. auto.
        -- auto.
        -- intros x Hx. apply Hpieces in Hx. simpl. tauto.
    + apply last_visible_none in El. subst vs. apply Hfast. intros v [].
  - apply Forall_forall. intros w Hw. apply merge_in in Hw; auto.
    destruct Hw as [Hw|[v [Hv Hw]]]; subst; auto.
    pose proof (split_in _ _ _ _ (Hf v Hv) Hos Hw). tauto.
Qed.

Lemma visible_at_unique : forall vs v p, vis_ok vs -> In v vs -> vcovers v p = true ->
  visible_at vs p = Some v.
Proof. intros vs v p. exact (ifind_unique v_start v_stop vs v p). Qed.

Lemma visible_at_none : forall vs p, (forall v, In v vs -> vcovers v p = false) -> visible_at vs p = None.
Proof. intros vs p. exact (ifind_none v_start v_stop vs p). Qed.

Lemma visible_at_some : forall vs p v, visible_at vs p = Some v -> In v vs /\ vcovers v p = true.
Proof. intros vs p v H. apply find_some in H. auto. Qed.

(* --- what a lookup sees after a merge: the new chunk where it covers, the old answer elsewhere --- *)
Lemma merge_src : forall vs c p, vis_ok vs -> 0 < c_size c ->
  src_of_visibles (merge_into_visibles vs c) p =
  if covers c p then Some (c_fid c, p - c_off c) else src_of_visibles vs p.
Proof.
  intros vs c p Hok Hsz.
  assert (Hos : c_off c <= c_stop c) by (unfold c_stop; lia).
  pose proof (merge_ok vs c Hok Hsz) as Hok'.
  pose proof Hok as [Hs Hf]. rewrite Forall_forall in Hf.
  unfold src_of_visibles.
  destruct (covers c p) eqn:Ec.
  - rewrite (visible_at_unique _ (new_visible c) p Hok').
    + simpl. reflexivity.
    + apply merge_in; auto.
    + unfold vcovers. simpl. exact Ec.
  - destruct (visible_at vs p) as [v|] eqn:Ev.
    + apply visible_at_some in Ev. destruct Ev as [Hv Hc].
      destruct (split_cover (c_off c) (c_stop c) v p (Hf v Hv) Hc Ec) as [w [Hw Hwc]].
      rewrite (visible_at_unique _ w p Hok').
      * pose proof (split_in _ _ _ _ (Hf v Hv) Hos Hw) as P.
        unfold vcovers in Hc, Hwc. destruct P as [P1 [_ [_ [P4 [P5 [P6 [P7 P8]]]]]]].
        rewrite P1. f_equal. f_equal. lia.
      * apply merge_in; auto. right. exists v. auto.
      * exact Hwc.
    + rewrite visible_at_none; auto.
      intros w Hw. apply merge_in in Hw; auto. destruct Hw as [Hw|[v [Hv Hw]]].
      * subst w. unfold vcovers. simpl. exact Ec.
      * pose proof (find_none _ _ Ev v Hv) as Hn. simpl in Hn.
        pose proof (split_in _ _ _ _ (Hf v Hv) Hos Hw) as P.
        unfold vcovers in *. unfold covers in Ec. lia.
Qed.
