(* C21: every operation of model/HardLink.v outside the trigger sets keeps the link-record
   invariant, keeps linked names linked and shows a write through every name; the full
   statements are refuted with concrete histories. *)
From Coq Require Import List NArith ZArith Bool String Arith Lia Permutation.
From SW Require Import model.FilerNS proof.FilerNSBase model.Chunks model.HardLink
  proof.HardLinkBase proof.HardLinkInv proof.HardLinkOps.
Import ListNotations.
Local Open Scope list_scope.

(* ================= from the invariant to the decidable oracles ================= *)
Lemma In_kv_get : forall s X b, NoDup (map fst (kvs s)) -> In (X, b) (kvs s) -> kv_get s X = Some b.
Proof. intros. unfold kv_get. eapply In_aget; eauto. apply Neqb_spec. Qed.

Lemma inv_counters_ok : forall s, Inv s -> counters_ok s = true.
Proof.
  intros s I. unfold counters_ok. apply andb_true_iff. split.
  - apply forallb_forall. intros [X b] Hin. simpl.
    pose proof (In_kv_get s X b (ig_kd _ _ I) Hin) as Hg.
    destruct (ig_cnt _ _ I X b Hg) as [A [_ [C D]]]. simpl in C, D. rewrite Nat.add_0_r in C, D.
    rewrite count_names_cn. rewrite C, Z.eqb_refl, A, N.eqb_refl.
    destruct (Nat.ltb_spec 0 (cn (names s) X)); [reflexivity|lia].
  - apply forallb_forall. intros [p e] Hin. simpl.
    destruct (N.eqb_spec (h_hl e) 0) as [E|E]; [reflexivity|]. simpl.
    pose proof (In_nfind s p e (ig_nd _ _ I) Hin) as Hf.
    destruct (linked_has_record _ _ _ _ I Hf E) as [b Hb]. now rewrite Hb.
Qed.

Lemma linked_true : forall a b, linked a b = true <-> h_hl a <> 0%N /\ h_hl a = h_hl b.
Proof.
  intros. unfold linked. rewrite andb_true_iff, negb_true_iff, N.eqb_neq, N.eqb_eq. tauto.
Qed.

Lemma opt_eqb_refl : forall o, opt_eqb o o = true.
Proof. destruct o; simpl; [apply hentry_eqb_refl|reflexivity]. Qed.

(* names carrying the same id show the same entry: both read the one record *)
Lemma inv_shared_view : forall s, Inv s -> shared_view_ok s (model_view s) = true.
Proof.
  intros s I. unfold shared_view_ok. apply forallb_forall. intros [p1 e1] H1.
  apply forallb_forall. intros [p2 e2] H2. simpl.
  destruct (linked e1 e2) eqn:El; [|reflexivity]. simpl.
  apply linked_true in El. destruct El as [Hn He].
  pose proof (In_nfind s p1 e1 (ig_nd _ _ I) H1) as F1.
  pose proof (In_nfind s p2 e2 (ig_nd _ _ I) H2) as F2.
  destruct (linked_has_record _ _ _ _ I F1 Hn) as [b Hb].
  unfold model_view, w_find. rewrite F1, F2.
  rewrite (view_linked s e1 b Hn Hb).
  rewrite (view_linked s e2 b); [apply opt_eqb_refl|congruence|congruence].
Qed.

(* ================= links_kept from a frame property ================= *)
Lemma links_kept_intro : forall s o r s', NoDup (map fst (names s)) ->
  (forall q e, nfind s q = Some e -> h_hl e <> 0%N -> img s o q = Some q \/ img s o q = None) ->
  (forall q e, nfind s q = Some e -> h_hl e <> 0%N -> img s o q = Some q ->
     exists e', nfind s' q = Some e' /\ h_hl e' = h_hl e) ->
  links_kept s o r s' = true.
Proof.
  intros s o r s' Hnd Hshape Hkeep. unfold links_kept. apply orb_true_iff. right.
  apply forallb_forall. intros [p1 e1] H1. apply forallb_forall. intros [p2 e2] H2. simpl.
  destruct (linked e1 e2) eqn:El; [|reflexivity]. simpl.
  apply linked_true in El. destruct El as [Hn He].
  pose proof (In_nfind s p1 e1 Hnd H1) as F1. pose proof (In_nfind s p2 e2 Hnd H2) as F2.
  assert (Hn2 : h_hl e2 <> 0%N) by congruence.
  destruct (Hshape p1 e1 F1 Hn) as [A1|A1]; rewrite A1; [|reflexivity].
  destruct (Hshape p2 e2 F2 Hn2) as [A2|A2]; rewrite A2; [|reflexivity].
  destruct (Hkeep p1 e1 F1 Hn A1) as [e1' [G1 K1]]. destruct (Hkeep p2 e2 F2 Hn2 A2) as [e2' [G2 K2]].
  rewrite G1, G2. apply linked_true. split; congruence.
Qed.

Lemma links_kept_err : forall s o r s', r <> OK -> links_kept s o r s' = true.
Proof. intros. unfold links_kept. destruct r; simpl; congruence. Qed.

Lemma effect_ok_err : forall o r s' vw, r <> OK -> effect_ok o r s' vw = true.
Proof. intros. unfold effect_ok. destruct r; simpl; congruence. Qed.

(* ================= reading the hypothesis c21_quiet ================= *)
Lemma blob_linked_false : forall s p, blob_linked s p = false -> forall ex, nfind s p = Some ex -> h_hl ex = 0%N.
Proof.
  intros s p H ex Hf. unfold blob_linked in H. rewrite Hf in H.
  apply negb_false_iff, N.eqb_eq in H. exact H.
Qed.

Lemma in_scope_nonroot : forall p, in_scope p = true -> p <> [].
Proof. intros p H E. subst. discriminate. Qed.

Lemma scoped_st : forall p r s, in_scope p = false -> scoped p r s = (s, EScope, []).
Proof. intros. unfold scoped. now rewrite H. Qed.

(* the blob under a name and what FindEntry shows: same link id, same counter as the record *)
Lemma view_cases : forall s p ex, Inv s -> nfind s p = Some ex ->
  (h_hl ex = 0%N /\ view s ex = ex) \/
  (h_hl ex <> 0%N /\ exists b, kv_get s (h_hl ex) = Some b /\ view s ex = b /\ h_hl b = h_hl ex /\ h_dir b = false).
Proof.
  intros s p ex I H. destruct (N.eq_dec (h_hl ex) 0) as [E|E].
  - left. split; [assumption|now apply view_plain].
  - right. split; [assumption|]. destruct (linked_has_record _ _ _ _ I H E) as [b Hb].
    exists b. destruct (ig_cnt _ _ I _ _ Hb) as [A [B _]]. repeat split; auto. now apply view_linked.
Qed.

(* an entry derived from what FindEntry showed (same id, counter, type) written back through the name *)
Lemma write_back_inv : forall ev s p ex e, Inv s -> p <> [] -> nfind s p = Some ex ->
  h_hl e = h_hl (view s ex) -> h_cnt e = h_cnt (view s ex) -> h_dir e = h_dir (view s ex) ->
  Inv (st_of (filer_create ev s p e false)) /\
  Inv (w_insert s p e).
Proof.
  intros ev s p ex e I Hp H Hh Hc Hd.
  destruct (view_cases s p ex I H) as [[E V]|[E [b [Hb [V [Hhb Hdb]]]]]]; rewrite V in *.
  - split.
    + apply filer_create_plain_inv; auto; try congruence; try (intros ex' H'; congruence).
    + apply w_insert_plain_inv; auto; try congruence; try (intros ex' H'; congruence).
  - split.
    + eapply filer_create_same_link_inv; eauto; congruence.
    + eapply w_insert_same_link_inv; eauto; congruence.
Qed.

Lemma collect_ids_nil : forall cs,
  existsb (fun c : name * hentry => negb (h_dir (snd c)) && negb (h_hl (snd c) =? 0)%N) cs = false ->
  snd (collect_children cs) = [].
Proof.
  induction cs as [|c cs IH]; simpl; intro H; [reflexivity|].
  apply orb_false_iff in H. destruct H as [H1 H2]. specialize (IH H2).
  destruct (h_dir (snd c)); [exact IH|]. simpl in H1. rewrite H1. simpl. exact IH.
Qed.

(* ================= one step keeps the invariant ================= *)
Lemma quiet_parts : forall ev s o, c21_quiet ev s o = true ->
  c21_op_ok ev s o = true /\ trig_rename_linked s o = false /\ trig_overwrite_linked s o = false /\
  trig_rec_nodata ev s o = false /\
  match o with
  | Rename oldp _ => match nfind s oldp with Some e => negb (h_dir e) | None => true end
  | _ => true
  end = true.
Proof.
  intros ev s o H. unfold c21_quiet in H. repeat rewrite andb_true_iff in H.
  repeat rewrite negb_true_iff in H. tauto.
Qed.

Lemma move_self_inv : forall ev s oldp e newp, Inv s -> oldp <> [] -> newp <> [] ->
  h_hl e = 0%N -> (forall ex, nfind s newp = Some ex -> h_hl ex = 0%N) ->
  Inv (st_of (move_self ev s oldp e newp)).
Proof.
  intros ev s oldp e newp I Ho Hn He Hnew. unfold move_self.
  destruct (HardLink.path_eqb oldp newp); [exact I|].
  pose proof (filer_create_plain_inv [] ev s newp (strip_link e) false I Hn eq_refl Hnew) as I1.
  destruct (filer_create ev s newp (strip_link e) false) as [[s1 r1] d1]. unfold st_of in I1. simpl in I1.
  destruct r1; try exact I1.
  pose proof (delete_entry_inv ev s1 oldp false false false I1 Ho (or_intror (or_introl eq_refl))) as I2.
  destruct (delete_entry ev s1 oldp false false false) as [[s2 r2] d2]. exact I2.
Qed.

Lemma kv_get_w_insert_same : forall s p e, h_hl e <> 0%N ->
  (forall ex, nfind s p = Some ex -> h_hl ex = 0%N \/ h_hl ex = h_hl e) ->
  kv_get (w_insert s p e) (h_hl e) = Some e.
Proof.
  intros s p e Hn Hold. unfold w_insert, handle_update_to_hard_links.
  destruct (N.eqb_spec (h_hl e) 0); [congruence|]. rewrite kv_put_nfind.
  assert (Hk : kv_get (kv_put s (h_hl e) e) (h_hl e) = Some e) by (rewrite kv_get_put; now rewrite N.eqb_refl).
  destruct (nfind s p) as [ex|] eqn:E; [|exact Hk].
  destruct (Hold ex eq_refl) as [A|A]; rewrite A; simpl; [exact Hk|].
  rewrite N.eqb_refl, andb_false_r. exact Hk.
Qed.

Lemma cleanup_none_some : forall ev cs, exists r, cleanup_chunks ev None cs = Some r.
Proof.
  intros. unfold cleanup_chunks.
  destruct (compact_file_chunks resolve_fuel (ms ev) (filter (fun c => negb (c_manifest c)) cs)). eauto.
Qed.

Lemma grpc_create_always : forall ev s p e x,
  exists cs, st_of (grpc_create ev s p e x) = st_of (filer_create ev s p (set_chunks e cs) x) /\
             err_of (grpc_create ev s p e x) = err_of (filer_create ev s p (set_chunks e cs) x).
Proof.
  intros. unfold grpc_create. destruct (cleanup_none_some ev (h_chunks e)) as [[cs g] H]. rewrite H.
  exists cs. destruct (filer_create ev s p (set_chunks e cs) x) as [[s1 r] d]. destruct r; auto.
Qed.

(* Dir.Link as a whole *)
Lemma mount_link_spec : forall ev s oldp newp fresh, Inv s -> oldp <> [] -> newp <> [] ->
  id_unused s fresh = true -> file_at ev s oldp = true -> nfind s newp = None -> oldp <> newp ->
  (exists de, find_entry ev s (HardLink.parent newp) = Some de /\ h_dir de = true) ->
  let r := mount_link ev s oldp newp fresh in
  Inv (st_of r) /\
  Keeps (fun q => q = oldp \/ q = newp) s (st_of r) /\
  (forall ex, nfind s oldp = Some ex -> h_hl ex <> 0%N ->
     exists e', nfind (st_of r) oldp = Some e' /\ h_hl e' = h_hl ex) /\
  (err_of r = OK -> exists e1 e2, nfind (st_of r) oldp = Some e1 /\ nfind (st_of r) newp = Some e2 /\
                                   linked e1 e2 = true).
Proof.
  intros ev s oldp newp fresh I Ho Hn Hid Hfile Hnew Hne Hpar. simpl.
  unfold mount_link. rewrite (find_entry_nonroot ev s oldp Ho).
  destruct (w_find s oldp) as [e0|] eqn:Ef.
  2:{ unfold st_of, err_of; simpl. split; [exact I|]. split; [apply Keeps_refl|]. split.
      - intros ex H. apply w_find_None in Ef. congruence.
      - discriminate. }
  destruct (w_find_Some _ _ _ Ef) as [ex [Hex Hv]].
  unfold file_at in Hfile. rewrite (find_entry_nonroot ev s oldp Ho), Ef in Hfile.
  apply negb_true_iff in Hfile.
  unfold id_unused in Hid. repeat rewrite andb_true_iff in Hid. destruct Hid as [[Hid0 Hidkv] Hidn].
  apply negb_true_iff, N.eqb_neq in Hid0.
  destruct (kv_get s fresh) eqn:Ekf; [discriminate|]. clear Hidkv.
  set (e1 := if (h_hl e0 =? 0)%N then set_link e0 fresh 1%Z else e0).
  set (e2 := set_link e1 (h_hl e1) (h_cnt e1 + 1)%Z).
  (* the id the pair will carry, and the facts of the first half *)
  assert (Hfirst : h_dir e2 = false /\ h_hl e2 <> 0%N /\
            ((h_hl ex = 0%N /\ kv_get s (h_hl e2) = None /\ h_cnt e2 = 2%Z) \/
             (h_hl ex = h_hl e2 /\ exists b, kv_get s (h_hl e2) = Some b /\ h_cnt e2 = (h_cnt b + 1)%Z)) /\
            (h_hl ex <> 0%N -> h_hl e2 = h_hl ex) /\
            (h_hl e2 <> h_hl e0 \/ h_cnt e2 <> h_cnt e0)).
  { destruct (view_cases s oldp ex I Hex) as [[E V]|[E [b [Hb [V [Hhb Hdb]]]]]].
    - assert (He0 : e0 = ex) by congruence.
      assert (Ee2 : e2 = set_link (set_link e0 fresh 1%Z) fresh 2%Z).
      { unfold e2, e1. rewrite He0, E. reflexivity. }
      rewrite Ee2. simpl.
      split; [exact Hfile|]. split; [exact Hid0|]. split; [left; auto|]. split; [intro; congruence|].
      left. congruence.
    - assert (He0 : e0 = b) by congruence.
      assert (Hb0 : (h_hl e0 =? 0)%N = false) by (apply N.eqb_neq; congruence).
      assert (Ee2 : e2 = set_link e0 (h_hl e0) (h_cnt e0 + 1)%Z).
      { unfold e2, e1. rewrite Hb0. reflexivity. }
      rewrite Ee2. simpl.
      split; [exact Hfile|]. split; [congruence|].
      split; [right; split; [congruence|]; exists b; split; [congruence|rewrite He0; reflexivity]|].
      split; [intro; congruence|]. right. lia. }
  destruct Hfirst as [Hd2 [Hn2 [Hcase [Hsame Hdiff]]]].
  pose proof (grpc_update_cases ev s oldp e2) as Hu.
  destruct (grpc_update ev s oldp e2) as [[s1 r1] d1]. unfold st_of, err_of in Hu. simpl in Hu.
  inversion Hu as [r Hr Es Er | ex' cs Hf Heq Es Er | ex' cs Hf Heq Hdd Es Er]; subst s1 r1.
  - (* the first half failed: nothing changed *)
    destruct r; try congruence;
      (unfold st_of, err_of; simpl; split; [exact I|]; split; [apply Keeps_refl|]; split;
        [intros ex0 H0 _; exists ex0; split; congruence | discriminate]).
  - (* "unchanged": impossible, the counter or the id differs *)
    exfalso. rewrite (find_entry_nonroot ev s oldp Ho), Ef in Hf. inversion Hf; subst ex'.
    apply hentry_eqb_link in Heq. destruct Heq as [A [B _]].
    destruct (set_chunks_fields e2 cs) as [F1 [F2 _]]. rewrite F1 in A. rewrite F2 in B.
    destruct Hdiff; congruence.
  - rewrite (find_entry_nonroot ev s oldp Ho), Ef in Hf. inversion Hf; subst ex'. clear Hf.
    set (E := set_crtime (set_chunks e2 cs) (h_crtime e0)) in *.
    assert (I1 : InvG [h_hl e2] (w_insert s oldp E)).
    { apply (w_insert_link_first_inv [] s oldp ex E (h_hl e2)); auto. }
    assert (Hkv1 : kv_get (w_insert s oldp E) (h_hl e2) = Some E).
    { apply (kv_get_w_insert_same s oldp E); [exact Hn2|]. intros ex0 H0.
      assert (ex0 = ex) by congruence. subst ex0.
      destruct Hcase as [[A _]|[A _]]; [left; exact A|right; exact A]. }
    (* the second half *)
    destruct (grpc_create_always ev (w_insert s oldp E) newp e2 false) as [cs2 [Hst Her]].
    assert (Hnew1 : nfind (w_insert s oldp E) newp = None).
    { rewrite w_insert_nfind. destruct (peqb_spec oldp newp); [contradiction|assumption]. }
    assert (Hpar1 : exists de, find_entry ev (w_insert s oldp E) (HardLink.parent newp) = Some de /\ h_dir de = true).
    { destruct Hpar as [de [Hde Hdd']]. destruct (HardLink.parent newp) as [|a d] eqn:Ep; [eauto|].
      rewrite find_entry_nonroot in Hde |- * by discriminate.
      destruct (w_find_Some _ _ _ Hde) as [bd [Hbd Hvd]].
      assert (Hne' : oldp <> a :: d).
      { intro Eq. rewrite <- Eq in Hbd. assert (bd = ex) by congruence. subst bd.
        rewrite Hvd, <- Hv in Hdd'. congruence. }
      (* the directory's blob is plain (a record is never a directory), so its view is itself in both states *)
      assert (Hplain : h_hl bd = 0%N).
      { destruct (view_cases s (a :: d) bd I Hbd) as [[E0 _]|[E0 [b [Hb [V [_ Hdb]]]]]]; [exact E0|].
        rewrite Hvd, V in Hdd'. congruence. }
      exists bd. unfold w_find. rewrite w_insert_nfind.
      destruct (peqb_spec oldp (a :: d)); [contradiction|]. rewrite Hbd.
      rewrite view_plain by assumption. split; [reflexivity|].
      rewrite Hvd, view_plain in Hdd' by assumption. exact Hdd'. }
    destruct (filer_create_link2_inv [] ev (w_insert s oldp E) newp E (set_chunks e2 cs2) (h_hl e2)
                I1 Hn Hnew1 Hpar1 Hd2 eq_refl Hn2 Hkv1 eq_refl) as [I2 [Hok Hst2]].
    destruct (grpc_create ev (w_insert s oldp E) newp e2 false) as [[s2 r2] d2].
    unfold st_of, err_of in *. simpl in *. subst s2 r2. rewrite Hok, Hst2.
    split; [|split; [|split]].
    + rewrite Hst2 in I2. exact I2.
    + intros q e' Hq Hnq. rewrite !w_insert_nfind.
      destruct (peqb_spec newp q); [exfalso; apply Hnq; auto|].
      destruct (peqb_spec oldp q); [exfalso; apply Hnq; auto|]. exact Hq.
    + intros ex0 H0 Hn0. assert (ex0 = ex) by congruence. subst ex0.
      exists E. rewrite !w_insert_nfind.
      destruct (peqb_spec newp oldp); [congruence|]. rewrite path_eqb_refl.
      split; [reflexivity|]. simpl. apply Hsame. exact Hn0.
    + intros _. exists E, (set_chunks e2 cs2). rewrite !w_insert_nfind.
      destruct (peqb_spec newp oldp); [congruence|]. rewrite !path_eqb_refl.
      repeat split. apply linked_true. simpl. split; [exact Hn2|reflexivity].
Qed.
