(* C21: every operation of model/HardLink.v outside the trigger sets keeps the link-record
   invariant, keeps linked names linked and shows a write through every name; the full
   statements are refuted with concrete histories. *)
From Coq Require Import List NArith ZArith Bool String Arith Lia Permutation.
From SW Require Import model.FilerNS proof.FilerNSBase model.Chunks model.HardLink
  proof.HardLinkBase proof.HardLinkInv proof.HardLinkOps.
Import ListNotations.
Local Open Scope list_scope.

(* ================= from the invariant to the decidable oracles ================= *)
Lemma In_kv_get : forall s X b, NoDup (map fst (kvs s)) -> In (X, b) (kvs s) -> kv_get s X = Some b.
Proof. intros. unfold kv_get. eapply In_aget; eauto. apply Neqb_spec. Qed.

Lemma inv_counters_ok : forall s, Inv s -> counters_ok s = true.
Proof.
  intros s I. unfold counters_ok. apply andb_true_iff. split.
  - apply forallb_forall. intros [X b] Hin. simpl.
    pose proof (In_kv_get s X b (ig_kd _ _ I) Hin) as Hg.
    destruct (ig_cnt _ _ I X b Hg) as [A [_ [C D]]]. simpl in C, D. rewrite Nat.add_0_r in C, D.
    rewrite count_names_cn. rewrite C, Z.eqb_refl, A, N.eqb_refl.
    destruct (Nat.ltb_spec 0 (cn (names s) X)); [reflexivity|lia].
  - apply forallb_forall. intros [p e] Hin. simpl.
    destruct (N.eqb_spec (h_hl e) 0) as [E|E]; [reflexivity|]. simpl.
    pose proof (In_nfind s p e (ig_nd _ _ I) Hin) as Hf.
    destruct (linked_has_record _ _ _ _ I Hf E) as [b Hb]. now rewrite Hb.
Qed.

Lemma linked_true : forall a b, linked a b = true <-> h_hl a <> 0%N /\ h_hl a = h_hl b.
Proof.
  intros. unfold linked. rewrite andb_true_iff, negb_true_iff, N.eqb_neq, N.eqb_eq. tauto.
Qed.

Lemma opt_eqb_refl : forall o, opt_eqb o o = true.
Proof. destruct o; simpl; [apply hentry_eqb_refl|reflexivity]. Qed.

(* names carrying the same id show the same entry: both read the one record *)
Lemma inv_shared_view : forall s, Inv s -> shared_view_ok s (model_view s) = true.
Proof.
  intros s I. unfold shared_view_ok. apply forallb_forall. intros [p1 e1] H1.
  apply forallb_forall. intros [p2 e2] H2. simpl.
  destruct (linked e1 e2) eqn:El; [|reflexivity]. simpl.
  apply linked_true in El. destruct El as [Hn He].
  pose proof (In_nfind s p1 e1 (ig_nd _ _ I) H1) as F1.
  pose proof (In_nfind s p2 e2 (ig_nd _ _ I) H2) as F2.
  destruct (linked_has_record _ _ _ _ I F1 Hn) as [b Hb].
  unfold model_view, w_find. rewrite F1, F2.
  rewrite (view_linked s e1 b Hn Hb).
  rewrite (view_linked s e2 b); [apply opt_eqb_refl|congruence|congruence].
Qed.

(* ================= links_kept from a frame property ================= *)
Lemma links_kept_intro : forall s o r s', NoDup (map fst (names s)) ->
  (forall q e, nfind s q = Some e -> h_hl e <> 0%N -> img s o q = Some q \/ img s o q = None) ->
  (forall q e, nfind s q = Some e -> h_hl e <> 0%N -> img s o q = Some q ->
     exists e', nfind s' q = Some e' /\ h_hl e' = h_hl e) ->
  links_kept s o r s' = true.
Proof.
  intros s o r s' Hnd Hshape Hkeep. unfold links_kept. apply orb_true_iff. right.
  apply forallb_forall. intros [p1 e1] H1. apply forallb_forall. intros [p2 e2] H2. simpl.
  destruct (linked e1 e2) eqn:El; [|reflexivity]. simpl.
  apply linked_true in El. destruct El as [Hn He].
  pose proof (In_nfind s p1 e1 Hnd H1) as F1. pose proof (In_nfind s p2 e2 Hnd H2) as F2.
  assert (Hn2 : h_hl e2 <> 0%N) by congruence.
  destruct (Hshape p1 e1 F1 Hn) as [A1|A1]; rewrite A1; [|reflexivity].
  destruct (Hshape p2 e2 F2 Hn2) as [A2|A2]; rewrite A2; [|reflexivity].
  destruct (Hkeep p1 e1 F1 Hn A1) as [e1' [G1 K1]]. destruct (Hkeep p2 e2 F2 Hn2 A2) as [e2' [G2 K2]].
  rewrite G1, G2. apply linked_true. split; congruence.
Qed.

Lemma links_kept_err : forall s o r s', r <> OK -> links_kept s o r s' = true.
Proof. intros. unfold links_kept. destruct r; simpl; congruence. Qed.

Lemma effect_ok_err : forall o r s' vw, r <> OK -> effect_ok o r s' vw = true.
Proof. intros. unfold effect_ok. destruct r; simpl; congruence. Qed.

(* ================= reading the hypothesis c21_quiet ================= *)
Lemma blob_linked_false : forall s p, blob_linked s p = false -> forall ex, nfind s p = Some ex -> h_hl ex = 0%N.
Proof.
  intros s p H ex Hf. unfold blob_linked in H. rewrite Hf in H.
  apply negb_false_iff, N.eqb_eq in H. exact H.
Qed.

Lemma in_scope_nonroot : forall p, in_scope p = true -> p <> [].
Proof. intros p H E. subst. discriminate. Qed.

Lemma scoped_st : forall p r s, in_scope p = false -> scoped p r s = (s, EScope, []).
Proof. intros. unfold scoped. now rewrite H. Qed.

(* the blob under a name and what FindEntry shows: same link id, same counter as the record *)
Lemma view_cases : forall s p ex, Inv s -> nfind s p = Some ex ->
  (h_hl ex = 0%N /\ view s ex = ex) \/
  (h_hl ex <> 0%N /\ exists b, kv_get s (h_hl ex) = Some b /\ view s ex = b /\ h_hl b = h_hl ex /\ h_dir b = false).
Proof.
  intros s p ex I H. destruct (N.eq_dec (h_hl ex) 0) as [E|E].
  - left. split; [assumption|now apply view_plain].
  - right. split; [assumption|]. destruct (linked_has_record _ _ _ _ I H E) as [b Hb].
    exists b. destruct (ig_cnt _ _ I _ _ Hb) as [A [B _]]. repeat split; auto. now apply view_linked.
Qed.

(* an entry derived from what FindEntry showed (same id, counter, type) written back through the name *)
Lemma write_back_inv : forall ev s p ex e, Inv s -> p <> [] -> nfind s p = Some ex ->
  h_hl e = h_hl (view s ex) -> h_cnt e = h_cnt (view s ex) -> h_dir e = h_dir (view s ex) ->
  Inv (st_of (filer_create ev s p e false)) /\
  Inv (w_insert s p e).
Proof.
  intros ev s p ex e I Hp H Hh Hc Hd.
  destruct (view_cases s p ex I H) as [[E V]|[E [b [Hb [V [Hhb Hdb]]]]]]; rewrite V in *.
  - split.
    + apply filer_create_plain_inv; auto; try congruence; try (intros ex' H'; congruence).
    + apply w_insert_plain_inv; auto; try congruence; try (intros ex' H'; congruence).
  - split.
    + eapply filer_create_same_link_inv; eauto; congruence.
    + eapply w_insert_same_link_inv; eauto; congruence.
Qed.

Lemma collect_ids_nil : forall cs,
  existsb (fun c : name * hentry => negb (h_dir (snd c)) && negb (h_hl (snd c) =? 0)%N) cs = false ->
  snd (collect_children cs) = [].
Proof.
  induction cs as [|c cs IH]; simpl; intro H; [reflexivity|].
  apply orb_false_iff in H. destruct H as [H1 H2]. specialize (IH H2).
  destruct (h_dir (snd c)); [exact IH|]. simpl in H1. rewrite H1. simpl. exact IH.
Qed.

(* ================= one step keeps the invariant ================= *)
Lemma quiet_parts : forall ev s o, c21_quiet ev s o = true ->
  c21_op_ok ev s o = true /\ trig_rename_linked s o = false /\
  match o with
  | Rename oldp _ => match nfind s oldp with Some e => negb (h_dir e) | None => true end
  | _ => true
  end = true.
Proof.
  intros ev s o H. unfold c21_quiet in H. repeat rewrite andb_true_iff in H.
  repeat rewrite negb_true_iff in H. tauto.
Qed.

Lemma move_self_inv : forall ev s oldp e newp, Inv s -> oldp <> [] -> newp <> [] ->
  h_hl e = 0%N ->
  Inv (st_of (move_self ev s oldp e newp)).
Proof.
  intros ev s oldp e newp I Ho Hn He. unfold move_self.
  destruct (HardLink.path_eqb oldp newp); [exact I|].
  pose proof (filer_create_plain_inv' [] ev s newp (strip_link e) false I Hn eq_refl) as I1.
  destruct (filer_create ev s newp (strip_link e) false) as [[s1 r1] d1]. unfold st_of in I1. simpl in I1.
  destruct r1; try exact I1.
  pose proof (delete_entry_inv ev s1 oldp false false false I1 Ho) as I2.
  destruct (delete_entry ev s1 oldp false false false) as [[s2 r2] d2]. exact I2.
Qed.

Lemma kv_get_w_insert_same : forall s p e, h_hl e <> 0%N ->
  (forall ex, nfind s p = Some ex -> h_hl ex = 0%N \/ h_hl ex = h_hl e) ->
  kv_get (w_insert s p e) (h_hl e) = Some e.
Proof.
  intros s p e Hn Hold. unfold w_insert, handle_update_to_hard_links.
  destruct (N.eqb_spec (h_hl e) 0); [congruence|]. rewrite kv_put_nfind.
  assert (Hk : kv_get (kv_put s (h_hl e) e) (h_hl e) = Some e) by (rewrite kv_get_put; now rewrite N.eqb_refl).
  destruct (nfind s p) as [ex|] eqn:E; [|exact Hk].
  destruct (Hold ex eq_refl) as [A|A]; rewrite A; simpl; [exact Hk|].
  rewrite N.eqb_refl, andb_false_r. exact Hk.
Qed.

Lemma cleanup_none_some : forall ev cs, exists r, cleanup_chunks ev None cs = Some r.
Proof.
  intros. unfold cleanup_chunks.
  destruct (compact_file_chunks resolve_fuel (ms ev) (filter (fun c => negb (c_manifest c)) cs)). eauto.
Qed.

Lemma grpc_create_always : forall ev s p e x,
  exists cs, st_of (grpc_create ev s p e x) = st_of (filer_create ev s p (set_chunks e cs) x) /\
             err_of (grpc_create ev s p e x) = err_of (filer_create ev s p (set_chunks e cs) x).
Proof.
  intros. unfold grpc_create. destruct (cleanup_none_some ev (h_chunks e)) as [[cs g] H]. rewrite H.
  exists cs. destruct (filer_create ev s p (set_chunks e cs) x) as [[s1 r] d]. destruct r; auto.
Qed.

(* Dir.Link as a whole *)
Lemma mount_link_spec : forall ev s oldp newp fresh, Inv s -> oldp <> [] -> newp <> [] ->
  id_unused s fresh = true -> file_at ev s oldp = true -> nfind s newp = None -> oldp <> newp ->
  (exists de, find_entry ev s (HardLink.parent newp) = Some de /\ h_dir de = true) ->
  let r := mount_link ev s oldp newp fresh in
  Inv (st_of r) /\
  Keeps (fun q => q = oldp \/ q = newp) s (st_of r) /\
  (forall ex, nfind s oldp = Some ex -> h_hl ex <> 0%N ->
     exists e', nfind (st_of r) oldp = Some e' /\ h_hl e' = h_hl ex) /\
  (err_of r = OK -> exists e1 e2, nfind (st_of r) oldp = Some e1 /\ nfind (st_of r) newp = Some e2 /\
                                   linked e1 e2 = true).
Proof.
  intros ev s oldp newp fresh I Ho Hn Hid Hfile Hnew Hne Hpar. simpl.
  unfold mount_link. rewrite (find_entry_nonroot ev s oldp Ho).
  destruct (w_find s oldp) as [e0|] eqn:Ef.
  2:{ unfold st_of, err_of; simpl. split; [exact I|]. split; [apply Keeps_refl|]. split.
      - intros ex H. apply w_find_None in Ef. congruence.
      - discriminate. }
  destruct (w_find_Some _ _ _ Ef) as [ex [Hex Hv]].
  unfold file_at in Hfile. rewrite (find_entry_nonroot ev s oldp Ho), Ef in Hfile.
  apply negb_true_iff in Hfile.
  unfold id_unused in Hid. repeat rewrite andb_true_iff in Hid. destruct Hid as [[Hid0 Hidkv] Hidn].
  apply negb_true_iff, N.eqb_neq in Hid0.
  destruct (kv_get s fresh) eqn:Ekf; [discriminate|]. clear Hidkv.
  set (e1 := if (h_hl e0 =? 0)%N then set_link e0 fresh 1%Z else e0).
  set (e2 := set_link e1 (h_hl e1) (h_cnt e1 + 1)%Z).
  (* the id the pair will carry, and the facts of the first half *)
  assert (Hfirst : h_dir e2 = false /\ h_hl e2 <> 0%N /\
            ((h_hl ex = 0%N /\ kv_get s (h_hl e2) = None /\ h_cnt e2 = 2%Z) \/
             (h_hl ex = h_hl e2 /\ exists b, kv_get s (h_hl e2) = Some b /\ h_cnt e2 = (h_cnt b + 1)%Z)) /\
            (h_hl ex <> 0%N -> h_hl e2 = h_hl ex) /\
            (h_hl e2 <> h_hl e0 \/ h_cnt e2 <> h_cnt e0)).
  { destruct (view_cases s oldp ex I Hex) as [[E V]|[E [b [Hb [V [Hhb Hdb]]]]]].
    - assert (He0 : e0 = ex) by congruence.
      assert (Ee2 : e2 = set_link (set_link e0 fresh 1%Z) fresh 2%Z).
      { unfold e2, e1. rewrite He0, E. reflexivity. }
      rewrite Ee2. simpl.
      split; [exact Hfile|]. split; [exact Hid0|]. split; [left; auto|]. split; [intro; congruence|].
      left. congruence.
    - assert (He0 : e0 = b) by congruence.
      assert (Hb0 : (h_hl e0 =? 0)%N = false) by (apply N.eqb_neq; congruence).
      assert (Ee2 : e2 = set_link e0 (h_hl e0) (h_cnt e0 + 1)%Z).
      { unfold e2, e1. rewrite Hb0. reflexivity. }
      rewrite Ee2. simpl.
      split; [exact Hfile|]. split; [congruence|].
      split; [right; split; [congruence|]; exists b; split; [congruence|rewrite He0; reflexivity]|].
      split; [intro; congruence|]. right. lia. }
  destruct Hfirst as [Hd2 [Hn2 [Hcase [Hsame Hdiff]]]].
  pose proof (grpc_update_cases ev s oldp e2) as Hu.
  destruct (grpc_update ev s oldp e2) as [[s1 r1] d1]. unfold st_of, err_of in Hu. simpl in Hu.
  inversion Hu as [r Hr Es Er | ex' cs Hf Heq Es Er | ex' cs Hf Heq Hdd Es Er]; subst s1 r1.
  - (* the first half failed: nothing changed *)
    destruct r; try congruence;
      (unfold st_of, err_of; simpl; split; [exact I|]; split; [apply Keeps_refl|]; split;
        [intros ex0 H0 _; exists ex0; split; congruence | discriminate]).
  - (* "unchanged": impossible, the counter or the id differs *)
    exfalso. rewrite (find_entry_nonroot ev s oldp Ho), Ef in Hf. inversion Hf; subst ex'.
    apply hentry_eqb_link in Heq. destruct Heq as [A [B _]].
    destruct (set_chunks_fields e2 cs) as [F1 [F2 _]]. rewrite F1 in A. rewrite F2 in B.
    destruct Hdiff; congruence.
  - rewrite (find_entry_nonroot ev s oldp Ho), Ef in Hf. inversion Hf; subst ex'. clear Hf.
    set (E := set_crtime (set_chunks e2 cs) (h_crtime e0)) in *.
    assert (I1 : InvG [h_hl e2] (w_insert s oldp E)).
    { apply (w_insert_link_first_inv [] s oldp ex E (h_hl e2)); auto. }
    assert (Hkv1 : kv_get (w_insert s oldp E) (h_hl e2) = Some E).
    { apply (kv_get_w_insert_same s oldp E); [exact Hn2|]. intros ex0 H0.
      assert (ex0 = ex) by congruence. subst ex0.
      destruct Hcase as [[A _]|[A _]]; [left; exact A|right; exact A]. }
    (* the second half *)
    destruct (grpc_create_always ev (w_insert s oldp E) newp e2 false) as [cs2 [Hst Her]].
    assert (Hnew1 : nfind (w_insert s oldp E) newp = None).
    { rewrite w_insert_nfind. destruct (peqb_spec oldp newp); [contradiction|assumption]. }
    assert (Hpar1 : exists de, find_entry ev (w_insert s oldp E) (HardLink.parent newp) = Some de /\ h_dir de = true).
    { destruct Hpar as [de [Hde Hdd']]. destruct (HardLink.parent newp) as [|a d] eqn:Ep; [eauto|].
      rewrite find_entry_nonroot in Hde |- * by discriminate.
      destruct (w_find_Some _ _ _ Hde) as [bd [Hbd Hvd]].
      assert (Hne' : oldp <> a :: d).
      { intro Eq. rewrite <- Eq in Hbd. assert (bd = ex) by congruence. subst bd.
        rewrite Hvd, <- Hv in Hdd'. congruence. }
      (* the directory's blob is plain (a record is never a directory), so its view is itself in both states *)
      assert (Hplain : h_hl bd = 0%N).
      { destruct (view_cases s (a :: d) bd I Hbd) as [[E0 _]|[E0 [b [Hb [V [_ Hdb]]]]]]; [exact E0|].
        rewrite Hvd, V in Hdd'. congruence. }
      exists bd. unfold w_find. rewrite w_insert_nfind.
      destruct (peqb_spec oldp (a :: d)); [contradiction|]. rewrite Hbd.
      rewrite view_plain by assumption. split; [reflexivity|].
      rewrite Hvd, view_plain in Hdd' by assumption. exact Hdd'. }
    destruct (filer_create_link2_inv [] ev (w_insert s oldp E) newp E (set_chunks e2 cs2) (h_hl e2)
                I1 Hn Hnew1 Hpar1 Hd2 eq_refl Hn2 Hkv1 eq_refl) as [I2 [Hok Hst2]].
    destruct (grpc_create ev (w_insert s oldp E) newp e2 false) as [[s2 r2] d2].
    unfold st_of, err_of in *. simpl in *. subst s2 r2. rewrite Hok, Hst2.
    split; [|split; [|split]].
    + rewrite Hst2 in I2. exact I2.
    + intros q e' Hq Hnq. rewrite !w_insert_nfind.
      destruct (peqb_spec newp q); [exfalso; apply Hnq; auto|].
      destruct (peqb_spec oldp q); [exfalso; apply Hnq; auto|]. exact Hq.
    + intros ex0 H0 Hn0. assert (ex0 = ex) by congruence. subst ex0.
      exists E. rewrite !w_insert_nfind.
      destruct (peqb_spec newp oldp); [congruence|]. rewrite path_eqb_refl.
      split; [reflexivity|]. simpl. apply Hsame. exact Hn0.
    + intros _. exists E, (set_chunks e2 cs2). rewrite !w_insert_nfind.
      destruct (peqb_spec newp oldp); [congruence|]. rewrite !path_eqb_refl.
      repeat split. apply linked_true. simpl. split; [exact Hn2|reflexivity].
Qed.

(* ================= the remaining operations ================= *)
(* CreateEntry over an existing entry of the same type: the explicit result *)
Lemma filer_create_existing : forall ev s p ex e, p <> [] -> nfind s p = Some ex ->
  h_dir e = h_dir (view s ex) ->
  filer_create ev s p e false =
    (w_insert s p (set_crtime e (h_crtime (view s ex))), OK, delete_chunks_if_not_new ev (view s ex) e).
Proof.
  intros ev s p ex e Hp H Hd. unfold filer_create. rewrite find_entry_nonroot by assumption.
  unfold w_find. rewrite H. unfold filer_update. rewrite Hd.
  destruct (h_dir (view s ex)); reflexivity.
Qed.

(* deleting a file removes its own name only *)
Lemma delete_entry_keeps_file : forall ev s p e rec ign data, find_entry ev s p = Some e -> h_dir e = false ->
  Keeps (eq p) s (st_of (delete_entry ev s p rec ign data)).
Proof.
  intros ev s p e rec ign data Hf Hd.
  destruct (delete_entry_cases ev s p rec ign data) as [[A _]|[e' [Hf' [_ [_ A]]]]]; rewrite A; [apply Keeps_refl|].
  assert (e' = e) by congruence. subst e'. rewrite Hd in *.
  intros q e0 Hq Hn.
  assert (Hne : HardLink.path_eqb p q = false) by (destruct (peqb_spec p q); [contradiction|reflexivity]).
  assert (H2 : nfind (w_delete_one s p e) q = Some e0) by (rewrite w_delete_one_nfind, Hne; exact Hq).
  destruct data; [rewrite dhl_fold_nfind|]; exact H2.
Qed.

Lemma move_self_keeps : forall ev s oldp e newp ex, oldp <> [] ->
  nfind s oldp = Some ex -> h_hl ex = 0%N -> h_dir ex = false ->
  Keeps (fun q => q = oldp \/ q = newp) s (st_of (move_self ev s oldp e newp)).
Proof.
  intros ev s oldp e newp ex Ho Hex Hpl Hnd. unfold move_self.
  destruct (peqb_spec oldp newp) as [E|E]; [apply Keeps_refl|].
  pose proof (filer_create_keeps ev s newp (strip_link e) false) as K1.
  destruct (filer_create ev s newp (strip_link e) false) as [[s1 r1] d1]. unfold st_of in K1. simpl in K1.
  assert (K1' : Keeps (fun q => q = oldp \/ q = newp) s s1).
  { eapply Keeps_weaken; [|exact K1]. intros q Hq. right. congruence. }
  destruct r1; try exact K1'.
  assert (Hex1 : nfind s1 oldp = Some ex) by (apply K1; [exact Hex|congruence]).
  assert (Hf1 : find_entry ev s1 oldp = Some ex).
  { rewrite find_entry_nonroot by assumption. unfold w_find. rewrite Hex1. now rewrite view_plain. }
  pose proof (delete_entry_keeps_file ev s1 oldp ex false false false Hf1 Hnd) as K2.
  destruct (delete_entry ev s1 oldp false false false) as [[s2 r2] d2]. unfold st_of in *. simpl in *.
  eapply Keeps_trans; [exact K1'|]. eapply Keeps_weaken; [|exact K2]. intros q Hq. left. congruence.
Qed.

Definition StepGood (ev : env) (s : st) (o : op) : Prop :=
  let r := step ev s o in
  Inv (st_of r) /\ links_kept s o (err_of r) (st_of r) = true /\
  effect_ok o (err_of r) (st_of r) (model_view (st_of r)) = true.

Lemma good_unchanged : forall ev s o r d, Inv s -> r <> OK -> step ev s o = (s, r, d) -> StepGood ev s o.
Proof.
  intros ev s o r d I Hr E. unfold StepGood. rewrite E. unfold st_of, err_of. simpl.
  split; [exact I|]. split; [now apply links_kept_err|now apply effect_ok_err].
Qed.

Lemma effect_trivial : forall o r s' vw,
  match o with Link _ _ _ | Write _ _ _ _ => False | _ => True end -> effect_ok o r s' vw = true.
Proof. intros. unfold effect_ok. destruct (is_err r); [reflexivity|]. destruct o; simpl; auto; contradiction. Qed.

(* the entry a write sends: what FindEntry showed, with new chunks and mtime *)
Lemma written_fields : forall e0 cs mt cs' t,
  let E := set_crtime (set_chunks (set_mtime (set_chunks e0 cs) mt) cs') t in
  h_hl E = h_hl e0 /\ h_cnt E = h_cnt e0 /\ h_dir E = h_dir e0 /\ h_mtime E = mt.
Proof. intros. repeat split. Qed.

Lemma view_after_write : forall s p ex E, Inv s -> nfind s p = Some ex -> h_hl E = h_hl (view s ex) ->
  model_view (w_insert s p E) p = Some E.
Proof.
  intros s p ex E I H Hh. unfold model_view, w_find. rewrite w_insert_nfind, path_eqb_refl.
  f_equal. destruct (N.eq_dec (h_hl E) 0) as [Z|Z]; [now apply view_plain|].
  apply view_linked; [exact Z|]. apply kv_get_w_insert_same; [exact Z|].
  intros ex0 H0. assert (ex0 = ex) by congruence. subst ex0.
  right. rewrite Hh. symmetry. apply (view_hl [] s p ex I H).
Qed.

Theorem step_good : forall ev s o, Inv s -> c21_quiet ev s o = true -> StepGood ev s o.
Proof.
  intros ev s o I Hq. destruct (quiet_parts ev s o Hq) as [Hok [T0 Hsc]].
  destruct o as [p e x|p e|p cs|p rec ign data|oldp newp|oldp newp fresh|p cs mt via|p].
  - (* Create *)
    simpl in Hok. apply N.eqb_eq in Hok.
    unfold StepGood. simpl. unfold scoped. destruct (in_scope p) eqn:Esc.
    2:{ unfold st_of, err_of; simpl. split; [exact I|]. split; [now apply links_kept_err|now apply effect_ok_err]. }
    pose proof (in_scope_nonroot p Esc) as Hp.
    split; [|split; [|now apply effect_trivial]].
    + destruct (grpc_create_cases ev s p e x) as [[A _]|[cs [A _]]]; rewrite A; [exact I|].
      apply filer_create_plain_inv'; auto.
    + apply links_kept_intro; [apply (ig_nd _ _ I)| |].
      * intros q e0 _ _. simpl. destruct (HardLink.path_eqb p q); auto.
      * intros q e0 H0 Hn0 Hi. simpl in Hi. exists e0. split; [|reflexivity].
        apply (grpc_create_keeps ev s p e x q e0 H0). intro Eq. subst q. rewrite path_eqb_refl in Hi. discriminate.
  - (* Update *)
    simpl in Hok. apply N.eqb_eq in Hok.
    unfold StepGood. simpl. unfold scoped. destruct (in_scope p) eqn:Esc.
    2:{ unfold st_of, err_of; simpl. split; [exact I|]. split; [now apply links_kept_err|now apply effect_ok_err]. }
    split; [|split; [|now apply effect_trivial]].
    + destruct (grpc_update_cases ev s p e); try exact I.
      apply w_insert_plain_inv'; auto.
    + apply links_kept_intro; [apply (ig_nd _ _ I)| |].
      * intros q e0 _ _. simpl. destruct (HardLink.path_eqb p q); auto.
      * intros q e0 H0 Hn0 Hi. simpl in Hi. exists e0. split; [|reflexivity].
        apply (grpc_update_keeps ev s p e q e0 H0). intro Eq. subst q. rewrite path_eqb_refl in Hi. discriminate.
  - (* Append *)
    unfold StepGood. simpl. unfold scoped. destruct (in_scope p) eqn:Esc.
    2:{ unfold st_of, err_of; simpl. split; [exact I|]. split; [now apply links_kept_err|now apply effect_ok_err]. }
    pose proof (in_scope_nonroot p Esc) as Hp.
    unfold grpc_append. rewrite (find_entry_nonroot ev s p Hp). unfold w_find.
    destruct (nfind s p) as [ex|] eqn:Ex.
    + set (E := set_chunks (view s ex) _).
      rewrite (filer_create_existing ev s p ex E Hp Ex eq_refl). unfold st_of, err_of. simpl.
      split; [|split; [|now apply effect_trivial]].
      * apply (proj2 (write_back_inv ev s p ex (set_crtime E (h_crtime (view s ex))) I Hp Ex eq_refl eq_refl eq_refl)).
      * apply links_kept_intro; [apply (ig_nd _ _ I)| |].
        -- intros q e0 _ _. simpl. auto.
        -- intros q e0 H0 Hn0 _. rewrite w_insert_nfind. destruct (peqb_spec p q).
           ++ subst q. assert (e0 = ex) by congruence. subst e0. eexists. split; [reflexivity|].
              simpl. apply (view_hl [] s p ex I Ex).
           ++ exists e0. auto.
    + set (E := set_chunks _ _).
      split; [|split; [|now apply effect_trivial]].
      * apply filer_create_plain_inv; auto. intros ex H. congruence.
      * apply links_kept_intro; [apply (ig_nd _ _ I)| |].
        -- intros q e0 _ _. simpl. auto.
        -- intros q e0 H0 Hn0 _. exists e0. split; [|reflexivity].
           apply (filer_create_keeps ev s p E false q e0 H0). intro Eq. subst q. congruence.
  - (* Delete *)
    unfold StepGood. simpl. unfold scoped. destruct (in_scope p) eqn:Esc.
    2:{ unfold st_of, err_of; simpl. split; [exact I|]. split; [now apply links_kept_err|now apply effect_ok_err]. }
    pose proof (in_scope_nonroot p Esc) as Hp.
    rewrite grpc_delete_st.
    split; [|split; [|now apply effect_trivial]].
    + apply delete_entry_inv; auto.
    + apply links_kept_intro; [apply (ig_nd _ _ I)| |].
      * intros q e0 _ _. simpl. destruct (HardLink.is_prefix p q); auto.
      * intros q e0 H0 Hn0 Hi. simpl in Hi. exists e0. split; [|reflexivity].
        apply (delete_entry_keeps ev s p rec ign data q e0 H0). intro Eq. rewrite Eq in Hi. discriminate.
  - (* Rename *)
    unfold StepGood. simpl. unfold grpc_rename.
    destruct (in_scope oldp && in_scope newp) eqn:Esc; simpl.
    2:{ unfold st_of, err_of; simpl. split; [exact I|]. split; [now apply links_kept_err|now apply effect_ok_err]. }
    apply andb_true_iff in Esc. destruct Esc as [Eso Esn].
    pose proof (in_scope_nonroot oldp Eso) as Ho. pose proof (in_scope_nonroot newp Esn) as Hn.
    destruct (HardLink.is_prefix oldp (HardLink.parent newp)).
    { unfold st_of, err_of; simpl. split; [exact I|]. split; [now apply links_kept_err|now apply effect_ok_err]. }
    rewrite (find_entry_nonroot ev s oldp Ho). unfold w_find.
    destruct (nfind s oldp) as [ex|] eqn:Ex.
    2:{ unfold st_of, err_of; simpl. split; [exact I|]. split; [now apply links_kept_err|now apply effect_ok_err]. }
    simpl in T0, Hsc. apply negb_true_iff in Hsc.
    apply orb_false_iff in T0. destruct T0 as [T0 _].
    pose proof (blob_linked_false s oldp T0 ex Ex) as Hpl.
    rewrite (view_plain s ex Hpl), Hsc. simpl.
    split; [|split; [|now apply effect_trivial]].
    + apply move_self_inv; auto.
    + apply links_kept_intro; [apply (ig_nd _ _ I)| |].
      * intros q e0 H0 Hn0. simpl. destruct (HardLink.path_eqb oldp newp); [auto|].
        destruct (peqb_spec oldp q); [subst q; congruence|]. rewrite Ex, Hsc.
        destruct (HardLink.path_eqb newp q); auto.
      * intros q e0 H0 Hn0 Hi. exists e0. split; [|reflexivity].
        apply (move_self_keeps ev s oldp ex newp ex Ho Ex Hpl Hsc q e0 H0).
        intros [Eq|Eq]; subst q; [congruence|].
        simpl in Hi. destruct (peqb_spec oldp newp) as [E|E]; [congruence|].
        rewrite Ex, Hsc, path_eqb_refl in Hi. discriminate.
  - (* Link *)
    unfold StepGood. simpl.
    destruct (in_scope oldp && in_scope newp) eqn:Esc.
    2:{ unfold st_of, err_of; simpl. split; [exact I|]. split; [now apply links_kept_err|now apply effect_ok_err]. }
    apply andb_true_iff in Esc. destruct Esc as [Eso Esn].
    pose proof (in_scope_nonroot oldp Eso) as Ho. pose proof (in_scope_nonroot newp Esn) as Hn.
    simpl in Hok. repeat rewrite andb_true_iff in Hok. destruct Hok as [[[[Hid Hfile] Hnew] Hne] Hpar].
    destruct (nfind s newp) eqn:Enew; [discriminate|].
    apply negb_true_iff in Hne. destruct (peqb_spec oldp newp) as [|Hne']; [discriminate|].
    assert (Hpar' : exists de, find_entry ev s (HardLink.parent newp) = Some de /\ h_dir de = true).
    { destruct (find_entry ev s (HardLink.parent newp)) as [de|]; [eauto|discriminate]. }
    destruct (mount_link_spec ev s oldp newp fresh I Ho Hn Hid Hfile Enew Hne' Hpar') as [I' [K [Hold Heff]]].
    split; [exact I'|]. split.
    + apply links_kept_intro; [apply (ig_nd _ _ I)| |].
      * intros q e0 _ _. simpl. destruct (HardLink.path_eqb newp q); auto.
      * intros q e0 H0 Hn0 Hi. simpl in Hi. destruct (peqb_spec newp q) as [|Hnq]; [discriminate|].
        destruct (peqb_spec oldp q) as [Eq|Eq].
        -- subst q. apply (Hold e0 H0 Hn0).
        -- exists e0. split; [|reflexivity]. apply (K q e0 H0). intros [A|A]; congruence.
    + unfold effect_ok. destruct (err_of (mount_link ev s oldp newp fresh)) eqn:Er; simpl; try reflexivity.
      destruct (Heff eq_refl) as [e1 [e2 [A [B C]]]]. now rewrite A, B.
  - (* Write *)
    unfold StepGood. simpl. unfold scoped. destruct (in_scope p) eqn:Esc.
    2:{ unfold st_of, err_of; simpl. split; [exact I|]. split; [now apply links_kept_err|now apply effect_ok_err]. }
    pose proof (in_scope_nonroot p Esc) as Hp.
    unfold mount_write. rewrite (find_entry_nonroot ev s p Hp). unfold w_find.
    destruct (nfind s p) as [ex|] eqn:Ex.
    2:{ unfold st_of, err_of; simpl. split; [exact I|]. split; [now apply links_kept_err|now apply effect_ok_err]. }
    set (e := set_mtime (set_chunks (view s ex) cs) mt).
    (* both ways end in w_insert s p E with E carrying the viewed id and counter, or change nothing *)
    assert (Hmain : forall E, h_hl E = h_hl (view s ex) -> h_cnt E = h_cnt (view s ex) ->
              h_dir E = h_dir (view s ex) -> h_mtime E = mt ->
              Inv (w_insert s p E) /\ links_kept s (Write p cs mt via) OK (w_insert s p E) = true /\
              effect_ok (Write p cs mt via) OK (w_insert s p E) (model_view (w_insert s p E)) = true).
    { intros E Hh Hc Hd Hm. split; [|split].
      - apply (proj2 (write_back_inv ev s p ex E I Hp Ex Hh Hc Hd)).
      - apply links_kept_intro; [apply (ig_nd _ _ I)| |].
        + intros q e0 _ _. simpl. auto.
        + intros q e0 H0 Hn0 _. rewrite w_insert_nfind. destruct (peqb_spec p q).
          * subst q. assert (e0 = ex) by congruence. subst e0. exists E. split; [reflexivity|].
            rewrite Hh. apply (view_hl [] s p ex I Ex).
          * exists e0. auto.
      - unfold effect_ok. simpl. rewrite (view_after_write s p ex E I Ex Hh). now rewrite Hm, N.eqb_refl. }
    destruct via.
    + destruct (grpc_create_always ev s p e false) as [cs' [A B]]. rewrite A, B.
      rewrite (filer_create_existing ev s p ex (set_chunks e cs') Hp Ex eq_refl). unfold st_of, err_of. simpl.
      apply Hmain; reflexivity.
    + pose proof (grpc_update_cases ev s p e) as Hu.
      destruct (grpc_update ev s p e) as [[s1 r1] d1]. unfold st_of, err_of in Hu |- *. simpl in Hu |- *.
      inversion Hu as [r Hr Es Er | ex' cs' Hf Heq Es Er | ex' cs' Hf Heq Hdd Es Er]; subst s1 r1.
      * split; [exact I|]. split; [now apply links_kept_err|now apply effect_ok_err].
      * split; [exact I|]. split.
        -- apply links_kept_intro; [apply (ig_nd _ _ I)| |].
           ++ intros q e0 _ _. simpl. auto.
           ++ intros q e0 H0 _ _. exists e0. auto.
        -- rewrite (find_entry_nonroot ev s p Hp) in Hf. unfold w_find in Hf. rewrite Ex in Hf.
           inversion Hf; subst ex'. apply hentry_eqb_link in Heq. destruct Heq as [_ [_ Hm]].
           unfold effect_ok. simpl. unfold model_view, w_find. rewrite Ex. rewrite Hm. simpl. apply N.eqb_refl.
      * rewrite (find_entry_nonroot ev s p Hp) in Hf. unfold w_find in Hf. rewrite Ex in Hf.
        inversion Hf; subst ex'. apply Hmain; reflexivity.
  - (* Unlink *)
    unfold StepGood. simpl. unfold scoped. destruct (in_scope p) eqn:Esc.
    2:{ unfold st_of, err_of; simpl. split; [exact I|]. split; [now apply links_kept_err|now apply effect_ok_err]. }
    pose proof (in_scope_nonroot p Esc) as Hp.
    unfold mount_unlink. destruct (find_entry ev s p) as [e0|].
    2:{ unfold st_of, err_of; simpl. split; [exact I|]. split; [now apply links_kept_err|now apply effect_ok_err]. }
    rewrite grpc_delete_st.
    split; [|split; [|now apply effect_trivial]].
    + apply delete_entry_inv; auto.
    + apply links_kept_intro; [apply (ig_nd _ _ I)| |].
      * intros q e1 _ _. simpl. destruct (HardLink.is_prefix p q); auto.
      * intros q e1 H0 Hn0 Hi. simpl in Hi. exists e1. split; [|reflexivity].
        apply (delete_entry_keeps ev s p false false (h_cnt e0 <=? 1)%Z q e1 H0). intro Eq. rewrite Eq in Hi. discriminate.
Qed.

(* ================= the theorems of props/C21.v ================= *)
Theorem step_ok_quiet : forall ev s o, Inv s -> c21_quiet ev s o = true ->
  let r := step ev s o in
  c21_step_ok s o (err_of r) (st_of r) (model_view (st_of r)) = true /\ Inv (st_of r).
Proof.
  intros ev s o I Hq. destruct (step_good ev s o I Hq) as [I' [L E]]. simpl. split; [|exact I'].
  unfold c21_step_ok. rewrite (inv_counters_ok _ I'), (inv_shared_view _ I'), L, E. reflexivity.
Qed.

Theorem run_ok_quiet : forall ev ops s, Inv s -> c21_hist_quiet ev s ops = true -> c21_run_ok ev s ops = true.
Proof.
  induction ops as [|o ops IH]; intros s I H; [reflexivity|].
  simpl in H. apply andb_true_iff in H. destruct H as [Hq Hr].
  destruct (step_ok_quiet ev s o I Hq) as [A I']. simpl. rewrite A. simpl. apply IH; assumption.
Qed.

Lemma final_inv : forall ev ops s, Inv s -> c21_hist_quiet ev s ops = true -> Inv (final ev s ops).
Proof.
  induction ops as [|o ops IH]; intros s I H; [exact I|].
  simpl in H. apply andb_true_iff in H. destruct H as [Hq Hr].
  simpl. apply IH; [|assumption]. apply (step_ok_quiet ev s o I Hq).
Qed.

(* every step of a history outside the trigger sets satisfies the whole C21 property *)
Theorem c21_history_partial : forall ev ops,
  c21_hist_quiet ev empty_st ops = true -> c21_run_ok ev empty_st ops = true.
Proof. intros. apply run_ok_quiet; [apply Inv_empty|assumption]. Qed.

(* names with the same link id show the same entry, after any such history *)
Theorem c21_shared_view_partial : forall ev ops, c21_hist_quiet ev empty_st ops = true ->
  let s := final ev empty_st ops in
  forall p1 e1 p2 e2, nfind s p1 = Some e1 -> nfind s p2 = Some e2 ->
    h_hl e1 <> 0%N -> h_hl e1 = h_hl e2 -> model_view s p1 = model_view s p2.
Proof.
  intros ev ops H s p1 e1 p2 e2 F1 F2 Hn He.
  pose proof (final_inv ev ops empty_st Inv_empty H) as I. fold s in I.
  destruct (linked_has_record _ _ _ _ I F1 Hn) as [b Hb].
  unfold model_view, w_find. rewrite F1, F2.
  rewrite (view_linked s e1 b Hn Hb). rewrite (view_linked s e2 b); [reflexivity|congruence|congruence].
Qed.

(* ... and a write through one of them is what all of them show *)
Theorem c21_write_through : forall ev s p cs mt via, Inv s ->
  c21_quiet ev s (Write p cs mt via) = true ->
  let r := step ev s (Write p cs mt via) in
  err_of r = OK ->
  forall e0 q eq, nfind s p = Some e0 -> nfind s q = Some eq -> h_hl e0 <> 0%N -> h_hl eq = h_hl e0 ->
    exists e', model_view (st_of r) q = Some e' /\ model_view (st_of r) p = Some e' /\ h_mtime e' = mt.
Proof.
  intros ev s p cs mt via I Hq r Hok e0 q eq F0 Fq Hn He.
  destruct (step_good ev s _ I Hq) as [I' [L E]]. fold r in I', L, E.
  (* the written name shows the new mtime *)
  unfold effect_ok in E. rewrite Hok in E. simpl in E.
  destruct (model_view (st_of r) p) as [e'|] eqn:Vp; [|discriminate]. apply N.eqb_eq in E.
  exists e'. split; [|split; [reflexivity|exact E]].
  (* q and p are still linked, so they read the same record *)
  unfold links_kept in L. rewrite Hok in L. simpl in L.
  rewrite forallb_forall in L. specialize (L (p, e0) (nfind_In _ _ _ F0)).
  rewrite forallb_forall in L. specialize (L (q, eq) (nfind_In _ _ _ Fq)). simpl in L.
  assert (Hl : linked e0 eq = true) by (apply linked_true; split; congruence).
  rewrite Hl in L. simpl in L.
  destruct (nfind (st_of r) p) as [e1|] eqn:G1; [|discriminate].
  destruct (nfind (st_of r) q) as [e2|] eqn:G2; [|discriminate].
  apply linked_true in L. destruct L as [Ln Le].
  destruct (linked_has_record _ _ _ _ I' G1 Ln) as [b Hb].
  unfold model_view, w_find in *. rewrite G1 in Vp. rewrite G2.
  rewrite (view_linked _ e1 b Ln Hb) in Vp. rewrite (view_linked _ e2 b); congruence.
Qed.

(* the counter of every record is the number of names carrying its id *)
Theorem c21_counter_partial : forall ev ops, c21_hist_quiet ev empty_st ops = true ->
  let s := final ev empty_st ops in
  forall X b, kv_get s X = Some b -> h_cnt b = Z.of_nat (count_names s X).
Proof.
  intros ev ops H s X b Hb.
  pose proof (final_inv ev ops empty_st Inv_empty H) as I. fold s in I.
  destruct (ig_cnt _ _ I X b Hb) as [_ [_ [C _]]]. simpl in C. rewrite Nat.add_0_r in C. exact C.
Qed.

(* a record exists exactly as long as some name carries its id *)
Theorem c21_gone_iff_last_partial : forall ev ops, c21_hist_quiet ev empty_st ops = true ->
  let s := final ev empty_st ops in
  forall X, X <> 0%N -> (kv_get s X <> None <-> (0 < count_names s X)%nat).
Proof.
  intros ev ops H s X HX.
  pose proof (final_inv ev ops empty_st Inv_empty H) as I. fold s in I. split.
  - intro Hk. destruct (kv_get s X) as [b|] eqn:E; [|congruence].
    destruct (ig_cnt _ _ I X b E) as [_ [_ [_ D]]]. simpl in D. rewrite Nat.add_0_r in D. exact D.
  - intro Hc. apply (ig_pres _ _ I X HX). simpl. rewrite Nat.add_0_r. exact Hc.
Qed.

(* ================= the link records after ANY history (client assumptions only) =================
   since the two repairs, every operation keeps the record invariant — also the renames that the
   trigger excludes above (they detach names, but the counters follow) *)
Lemma move_self_inv' : forall ev s oldp e newp, Inv s -> oldp <> [] -> newp <> [] ->
  Inv (st_of (move_self ev s oldp e newp)).
Proof.
  intros ev s oldp e newp I Ho Hn. unfold move_self.
  destruct (HardLink.path_eqb oldp newp); [exact I|].
  pose proof (filer_create_plain_inv' [] ev s newp (strip_link e) false I Hn eq_refl) as I1.
  destruct (filer_create ev s newp (strip_link e) false) as [[s1 r1] d1]. unfold st_of in I1. simpl in I1.
  destruct r1; try exact I1.
  pose proof (delete_entry_inv ev s1 oldp false false false I1 Ho) as I2.
  destruct (delete_entry ev s1 oldp false false false) as [[s2 r2] d2]. exact I2.
Qed.

Lemma child_nonroot : forall d n, HardLink.child d n <> [].
Proof. intros d n E. apply (f_equal (@List.length _)) in E. unfold HardLink.child, FilerNS.child in E.
  rewrite app_length in E. simpl in E. lia. Qed.

Lemma move_children_inv : forall ev oldd newd cs s, Inv s ->
  Inv (st_of (move_children ev s oldd newd cs)).
Proof.
  induction cs as [|c cs IH]; intros s I; [exact I|]. simpl.
  pose proof (move_self_inv' ev s (HardLink.child oldd (fst c)) (snd c) (HardLink.child newd (fst c)) I
                (child_nonroot _ _) (child_nonroot _ _)) as I1.
  destruct (move_self ev s (HardLink.child oldd (fst c)) (snd c) (HardLink.child newd (fst c))) as [[s1 r1] d1].
  unfold st_of in I1. simpl in I1.
  destruct r1; try exact I1.
  pose proof (IH s1 I1) as I2.
  destruct (move_children ev s1 oldd newd cs) as [[s2 r2] d2]. exact I2.
Qed.

Lemma grpc_rename_inv : forall ev s oldp newp, Inv s -> Inv (st_of (grpc_rename ev s oldp newp)).
Proof.
  intros ev s oldp newp I. unfold grpc_rename.
  destruct (in_scope oldp && in_scope newp) eqn:Esc; simpl; [|exact I].
  apply andb_true_iff in Esc. destruct Esc as [Eso Esn].
  pose proof (in_scope_nonroot oldp Eso) as Ho. pose proof (in_scope_nonroot newp Esn) as Hn.
  destruct (HardLink.is_prefix oldp (HardLink.parent newp)); [exact I|].
  destruct (find_entry ev s oldp) as [e|]; [|exact I].
  destruct (negb (h_dir e)); [now apply move_self_inv'|].
  assert (Hdir : Inv (st_of (if HardLink.path_eqb oldp newp then (s, OK, [])
            else match filer_create ev s newp (strip_link e) false with
                 | (s1, OK, d1) =>
                     match move_children ev s1 oldp newp (list_children s1 oldp) with
                     | (s2, OK, d2) =>
                         match delete_entry ev s2 oldp false false false with
                         | (s3, r3, d3) => (s3, r3, d1 ++ d2 ++ d3)
                         end
                     | (s2, r2, d2) => (s2, r2, d1 ++ d2)
                     end
                 | (s1, r, d1) => (s1, r, d1)
                 end))).
  { destruct (HardLink.path_eqb oldp newp); [exact I|].
    pose proof (filer_create_plain_inv' [] ev s newp (strip_link e) false I Hn eq_refl) as I1.
    destruct (filer_create ev s newp (strip_link e) false) as [[s1 r1] d1]. unfold st_of in I1. simpl in I1.
    destruct r1; try exact I1.
    pose proof (move_children_inv ev oldp newp (list_children s1 oldp) s1 I1) as I2.
    destruct (move_children ev s1 oldp newp (list_children s1 oldp)) as [[s2 r2] d2]. unfold st_of in I2. simpl in I2.
    destruct r2; try exact I2.
    pose proof (delete_entry_inv ev s2 oldp false false false I2 Ho) as I3.
    destruct (delete_entry ev s2 oldp false false false) as [[s3 r3] d3]. exact I3. }
  destruct (list_children s oldp) as [|c cs]; [exact Hdir|].
  destruct newp as [|a [|b [|c' r]]]; try exact Hdir. exact I.
Qed.

Lemma step_inv_ok : forall ev s o, Inv s -> c21_op_ok ev s o = true -> Inv (st_of (step ev s o)).
Proof.
  intros ev s o I Hok.
  destruct o as [p e x|p e|p cs|p rec ign data|oldp newp|oldp newp fresh|p cs mt via|p];
    try (apply (step_good ev s _ I); unfold c21_quiet; rewrite Hok; reflexivity).
  simpl. now apply grpc_rename_inv.
Qed.

Lemma final_inv_ok : forall ev ops s, Inv s -> c21_hist_ok ev s ops = true -> Inv (final ev s ops).
Proof.
  induction ops as [|o ops IH]; intros s I H; [exact I|].
  simpl in H. apply andb_true_iff in H. destruct H as [Hq Hr].
  simpl. apply IH; [|assumption]. now apply step_inv_ok.
Qed.

(* FULL: after every history that respects the client assumptions, the counter of every record is
   the number of names carrying its id ... *)
Theorem c21_counter_full : forall ev ops, c21_hist_ok ev empty_st ops = true ->
  let s := final ev empty_st ops in
  forall X b, kv_get s X = Some b -> h_cnt b = Z.of_nat (count_names s X).
Proof.
  intros ev ops H s X b Hb.
  pose proof (final_inv_ok ev ops empty_st Inv_empty H) as I. fold s in I.
  destruct (ig_cnt _ _ I X b Hb) as [_ [_ [C _]]]. simpl in C. rewrite Nat.add_0_r in C. exact C.
Qed.

(* ... and a record exists exactly as long as some name carries its id *)
Theorem c21_gone_iff_last_full : forall ev ops, c21_hist_ok ev empty_st ops = true ->
  let s := final ev empty_st ops in
  forall X, X <> 0%N -> (kv_get s X <> None <-> (0 < count_names s X)%nat).
Proof.
  intros ev ops H s X HX.
  pose proof (final_inv_ok ev ops empty_st Inv_empty H) as I. fold s in I. split.
  - intro Hk. destruct (kv_get s X) as [b|] eqn:E; [|congruence].
    destruct (ig_cnt _ _ I X b E) as [_ [_ [_ D]]]. simpl in D. rewrite Nat.add_0_r in D. exact D.
  - intro Hc. apply (ig_pres _ _ I X HX). simpl. rewrite Nat.add_0_r. exact Hc.
Qed.

(* names with the same link id show the same entry, after every such history *)
Theorem c21_shared_view_full : forall ev ops, c21_hist_ok ev empty_st ops = true ->
  let s := final ev empty_st ops in
  forall p1 e1 p2 e2, nfind s p1 = Some e1 -> nfind s p2 = Some e2 ->
    h_hl e1 <> 0%N -> h_hl e1 = h_hl e2 -> model_view s p1 = model_view s p2.
Proof.
  intros ev ops H s p1 e1 p2 e2 F1 F2 Hn He.
  pose proof (final_inv_ok ev ops empty_st Inv_empty H) as I. fold s in I.
  destruct (linked_has_record _ _ _ _ I F1 Hn) as [b Hb].
  unfold model_view, w_find. rewrite F1, F2.
  rewrite (view_linked s e1 b Hn Hb). rewrite (view_linked s e2 b); [reflexivity|congruence|congruence].
Qed.

(* ================= refutations of the full statements ================= *)
Local Open Scope N_scope.
Definition w_ev : env := mk_env [] 0.
Definition w_file (tag : N) (cs : list chunk) : hentry := mk_hentry false 420 tag tag tag cs 0 0%Z.
Definition w_c (k i : N) : chunk := Chunk k (i * 10) 10 k false.
Definition pa : path := ["a"%string].
Definition pb : path := ["b"%string].
Definition pc : path := ["c"%string].
Definition pd : path := ["d"%string].

(* k = 0: rename of a linked name *)
Definition w_rename : list op :=
  [Create pa (w_file 1 [w_c 1 0; w_c 2 1]) false; Link pa pb 1; Rename pa pc; Write pb [w_c 5 0] 9 true].
(* (repaired) a plain upload over a linked name, then the other name is unlinked *)
Definition w_overwrite : list op :=
  [Create pa (w_file 1 [w_c 1 0; w_c 2 1]) false; Link pa pb 1; Create pb (w_file 3 [w_c 7 0]) false; Unlink pa].
(* (repaired) recursive delete without data deletion, then the other name is unlinked *)
Definition w_rec_nodata : list op :=
  [Create (pd ++ pa) (w_file 1 [w_c 1 0; w_c 2 1]) false; Link (pd ++ pa) pb 1; Delete pd true false false; Unlink pb].

(* every history that respects the client assumptions satisfies the property at every step: FALSE *)
Theorem c21_history_refuted :
  exists ev ops, c21_hist_ok ev empty_st ops = true /\ c21_run_ok ev empty_st ops = false.
Proof. exists w_ev, w_rename. split; vm_compute; reflexivity. Qed.

(* after the rename, the two names that were one file differ once one of them is written *)
Theorem c21_rename_detaches :
  c21_hist_ok w_ev empty_st w_rename = true /\
  (let s2 := final w_ev empty_st (firstn 2 w_rename) in
   exists ea eb, nfind s2 pa = Some ea /\ nfind s2 pb = Some eb /\ linked ea eb = true) /\
  (let s := final w_ev empty_st w_rename in
   exists ec eb, model_view s pc = Some ec /\ model_view s pb = Some eb /\
                 h_chunks ec <> h_chunks eb /\ h_hl ec = 0).
Proof.
  split; [vm_compute; reflexivity|]. split.
  - vm_compute. eexists. eexists. repeat split.
  - vm_compute. eexists. eexists. repeat split. discriminate.
Qed.

(* the two repaired defects: a plain upload over a linked name and a recursive delete without data
   deletion now keep the counters right — both former witnesses are inside the hypothesis of the
   partial theorems, satisfy the property at every step and end without any record *)
Theorem c21_repaired_witnesses :
  c21_hist_quiet w_ev empty_st w_overwrite = true /\ kvs (final w_ev empty_st w_overwrite) = [] /\
  (exists b, kv_get (final w_ev empty_st (firstn 3 w_overwrite)) 1 = Some b /\ h_cnt b = 1%Z) /\
  c21_hist_quiet w_ev empty_st w_rec_nodata = true /\ final w_ev empty_st w_rec_nodata = empty_st.
Proof.
  split; [vm_compute; reflexivity|]. split; [vm_compute; reflexivity|].
  split; [vm_compute; eexists; split; reflexivity|]. split; vm_compute; reflexivity.
Qed.

(* the trigger names the step that fails *)
Theorem c21_witness_triggers :
  c21_first_failure w_ev empty_st w_rename = Some (Some 0) /\
  c21_first_failure w_ev empty_st w_overwrite = None /\
  c21_first_failure w_ev empty_st w_rec_nodata = None.
Proof. repeat split; vm_compute; reflexivity. Qed.

(* outside the observation points of the property (FindEntry, the KV record): a directory listing
   hands out the per-name blobs (leveldb2 lists natively, the wrapper does not resolve the link
   record there), so after a write through /a the listing still shows /b with the old chunks *)
Definition w_listing : list op :=
  [Create pa (w_file 1 [w_c 1 0]) false; Link pa pb 1; Write pa [w_c 5 0] 9 true].
Theorem c21_listing_stale :
  c21_hist_quiet w_ev empty_st w_listing = true /\
  (let s := final w_ev empty_st w_listing in
   exists e v, In ("b"%string, e) (list_children s []) /\ model_view s pb = Some v /\
               h_chunks e = [w_c 1 0] /\ h_chunks v = [w_c 5 0]).
Proof.
  split; [vm_compute; reflexivity|]. vm_compute. eexists. eexists.
  split; [right; left; reflexivity|]. split; [reflexivity|]. split; reflexivity.
Qed.

(* non-vacuity: a history with two link groups, writes through several names and unlinks down to
   nothing is inside the hypothesis of the partial theorems *)
Definition w_clean : list op :=
  [Create pa (w_file 1 [w_c 1 0; w_c 2 1]) false; Link pa pb 1;
   Create pd (mk_hentry true 493 9 9 9 [] 0 0%Z) false; Link pb (pd ++ pa) 2;
   Create pc (w_file 2 [w_c 3 0]) false; Link pc (pd ++ pb) 2;
   Write (pd ++ pa) [w_c 1 0; w_c 4 1] 5 true; Write pb [w_c 1 0; w_c 4 1] 6 false;
   Append (pd ++ pb) [Chunk 6 0 5 6 false];
   Unlink pa; Delete pd true false true; Unlink pb; Unlink pc].

Example c21_clean_is_quiet :
  c21_hist_quiet w_ev empty_st w_clean = true /\
  kvs (final w_ev empty_st (firstn 9 w_clean)) <> [] /\
  final w_ev empty_st w_clean = empty_st.
Proof. split; [vm_compute; reflexivity|]. split; vm_compute; [discriminate|reflexivity]. Qed.
