(* C06: WriteDatFile (ec_decoder.go, repaired `>`) turns the data shards back
   into the original .dat. *)
From Coq Require Import List ZArith NArith Bool Lia ZifyBool.
From SW Require Import model.EC proof.ECProofs proof.ECReadProofs.
Import ListNotations.
Local Open Scope Z_scope.

(* invariant rule for the `for shardId := 0; shardId < 10; shardId++` loops *)
Lemma fold_zcount_inv {St} (step : St -> Z -> St) (P : Z -> St -> Prop) :
  forall n j st, P j st ->
  (forall i st', j <= i < j + Z.of_nat n -> P i st' -> P (i + 1) (step st' i)) ->
  P (j + Z.of_nat n) (fold_left step (zcount j n) st).
Proof.
  induction n as [|n IH]; intros j st H0 Hstep.
  - cbn. replace (j + 0) with j by lia. exact H0.
  - cbn [zcount fold_left].
    replace (j + Z.of_nat (S n)) with ((j + 1) + Z.of_nat n) by lia.
    apply IH.
    + apply Hstep; [lia|exact H0].
    + intros i st' Hi HP. apply Hstep; [lia|exact HP].
Qed.

Section Decode.
  Variables (dat : Z -> byte) (L S D R s : Z) (sh : list (list byte)).
  Hypothesis HL : 0 < L.
  Hypothesis HS : 0 < S.
  Hypothesis HD : 0 <= D.
  Hypothesis Hlay : layout L S D R s.
  Hypothesis EF : enc_facts dat L S D R s sh.

  Lemma HR : 0 <= R. Proof. apply Hlay. Qed.
  Lemma Hs : 0 <= s. Proof. apply Hlay. Qed.
  Lemma Hend : D <= R * (L * 10) + s * (S * 10).
  Proof.
    destruct Hlay as [H1 [H2 [H3 H4]]]. destruct (Z_le_gt_dec D 0) as [Hle|Hgt].
    - destruct (H3 Hle). subst. lia.
    - specialize (H4 ltac:(lia)). lia.
  Qed.

  Ltac facts := pose proof HR as HR_; pose proof Hs as Hs_; pose proof Hend as Hend_.

  Lemma lay_large_lt : 0 < R -> R * (L * 10) < D.
  Proof.
    intros HR0. destruct Hlay as [H1 [H2 [H3 H4]]].
    destruct (Z_le_gt_dec D 0) as [Hle|Hgt].
    - destruct (H3 Hle). lia.
    - specialize (H4 ltac:(lia)). lia.
  Qed.

  Lemma lay_large_ge : D - R * (L * 10) <= L * 10.
  Proof.
    destruct Hlay as [H1 [H2 [H3 H4]]].
    destruct (Z_le_gt_dec D 0) as [Hle|Hgt].
    - destruct (H3 Hle). subst. lia.
    - specialize (H4 ltac:(lia)). lia.
  Qed.

  Lemma copy_large j k : 0 <= j < 10 -> 0 <= k < R ->
    copy_n (znth sh j []) (k * L) L = Some (dslice dat (k * (L * 10) + j * L) L).
  Proof.
    intros Hj Hk. facts. unfold copy_n. rewrite (ef_len _ _ _ _ _ _ _ EF j) by lia.
    assert (H1 : (k + 1) * L <= R * L) by nia.
    assert (H2 : 0 <= s * S) by nia.
    pose proof (lay_large_lt ltac:(lia)) as H3.
    assert (H4 : (k + 1) * (L * 10) <= R * (L * 10)) by nia.
    destruct (k * L + L <=? R * L + s * S) eqn:E; [|lia].
    f_equal. unfold dslice. apply map_zrange_ext. intros t Ht.
    rewrite (ef_large _ _ _ _ _ _ _ EF) by lia.
    assert (H5 : (j + 1) * L <= 10 * L) by nia.
    apply datz_lt. lia.
  Qed.

  Lemma copy_small j k n : 0 <= j < 10 -> 0 <= k < s -> 0 <= n <= S ->
    R * (L * 10) + k * (S * 10) + j * S + n <= D ->
    copy_n (znth sh j []) (R * L + k * S) n = Some (dslice dat (R * (L * 10) + k * (S * 10) + j * S) n).
  Proof.
    intros Hj Hk Hn Hle. facts. unfold copy_n. rewrite (ef_len _ _ _ _ _ _ _ EF j) by lia.
    assert (H1 : (k + 1) * S <= s * S) by nia.
    destruct (R * L + k * S + n <=? R * L + s * S) eqn:E; [|lia].
    f_equal. unfold dslice. apply map_zrange_ext. intros t Ht.
    rewrite (ef_small _ _ _ _ _ _ _ EF) by lia.
    apply datz_lt. lia.
  Qed.

  Lemma copy_nothing j k : 0 <= j < 10 -> 0 <= k <= s ->
    copy_n (znth sh j []) (R * L + k * S) 0 = Some [].
  Proof.
    intros Hj Hk. facts. unfold copy_n. rewrite (ef_len _ _ _ _ _ _ _ EF j) by lia.
    assert (H1 : k * S <= s * S) by nia.
    destruct (R * L + k * S + 0 <=? R * L + s * S) eqn:E; [|lia]. reflexivity.
  Qed.

  (* ---- one large row ---- *)
  Definition Plarge (k i : Z) (st : option wstate) : Prop :=
    exists s0, st = Some s0 /\ w_rem s0 = D - k * (L * 10) - i * L /\
      w_out s0 = dslice dat 0 (k * (L * 10) + i * L) /\
      forall x, 0 <= x < 10 -> w_pos s0 x = if x <? i then (k + 1) * L else k * L.

  Lemma large_row k st : 0 <= k < R -> Plarge k 0 st -> Plarge k 10 (wd_row sh (fun _ => L) st).
  Proof.
    intros Hk H0. facts. unfold wd_row. change (zrange 0 10) with (zcount 0 10%nat).
    change (Plarge k 10) with (Plarge k (0 + Z.of_nat 10)).
    apply fold_zcount_inv with (P := Plarge k); [exact H0|].
    intros i st' Hi [s0 [-> [Hrem [Hout Hpos]]]].
    unfold wd_step. rewrite (Hpos i) by lia.
    destruct (i <? i) eqn:E; [lia|]. rewrite copy_large by lia.
    eexists. split; [reflexivity|]. cbn [w_rem w_pos w_out]. split; [lia|]. split.
    - rewrite Hout.
      replace (k * (L * 10) + i * L) with (0 + (k * (L * 10) + i * L)) at 2 by lia.
      rewrite dslice_app by nia. f_equal. lia.
    - intros x Hx. unfold upd. destruct (x =? i) eqn:Ex.
      + destruct (x <? i + 1) eqn:E1; lia.
      + rewrite Hpos by lia. destruct (x <? i) eqn:E1; destruct (x <? i + 1) eqn:E2; lia.
  Qed.

  Lemma large_loop : forall fuel k s0, 0 <= k <= R -> (Z.to_nat (R - k) <= fuel)%nat ->
    w_rem s0 = D - k * (L * 10) -> w_out s0 = dslice dat 0 (k * (L * 10)) ->
    (forall x, 0 <= x < 10 -> w_pos s0 x = k * L) ->
    exists s1, wd_large fuel L sh (Some s0) = Some s1 /\ w_rem s1 = D - R * (L * 10) /\
      w_out s1 = dslice dat 0 (R * (L * 10)) /\ (forall x, 0 <= x < 10 -> w_pos s1 x = R * L).
  Proof.
    facts. induction fuel as [|f IH]; intros k s0 Hk Hf Hrem Hout Hpos.
    - assert (k = R) by lia. subst k. exists s0. cbn. auto.
    - cbn [wd_large]. pose proof lay_large_ge as Hge.
      destruct (w_rem s0 >? 10 * L) eqn:E.
      + assert (Hk' : k < R).
        { destruct (Z.eq_dec k R); [subst; lia|lia]. }
        destruct (large_row k (Some s0) ltac:(lia)) as [s1 [Hs1 [Hrem1 [Hout1 Hpos1]]]].
        { exists s0. split; [reflexivity|]. split; [lia|]. split.
          - rewrite Hout. f_equal. lia.
          - intros x Hx. rewrite Hpos by lia. destruct (x <? 0) eqn:E0; lia. }
        rewrite Hs1. apply (IH (k + 1) s1); try lia.
        * rewrite Hout1. f_equal. lia.
        * intros x Hx. rewrite Hpos1 by lia. destruct (x <? 10) eqn:E0; lia.
      + assert (k = R).
        { destruct (Z.eq_dec k R); auto. exfalso.
          pose proof (lay_large_lt ltac:(lia)). assert ((k + 1) * (L * 10) <= R * (L * 10)) by nia. lia. }
        subst k. exists s0. auto.
  Qed.

  (* ---- one small row ---- *)
  Definition Psmall (k rem0 i : Z) (st : option wstate) : Prop :=
    exists s0, st = Some s0 /\ w_rem s0 = Z.max 0 (rem0 - i * S) /\
      w_out s0 = dslice dat 0 (D - w_rem s0) /\
      (forall x, i <= x < 10 -> w_pos s0 x = R * L + k * S) /\
      (0 < w_rem s0 -> forall x, 0 <= x < i -> w_pos s0 x = R * L + (k + 1) * S).

  Lemma small_row k st : 0 <= k < s ->
    let rem0 := D - R * (L * 10) - k * (S * 10) in
    0 < rem0 -> Psmall k rem0 0 st -> Psmall k rem0 10 (wd_row sh (fun r => Z.min r S) st).
  Proof.
    intros Hk rem0 Hrem0 H0. facts. unfold wd_row. change (zrange 0 10) with (zcount 0 10%nat).
    change (Psmall k rem0 10) with (Psmall k rem0 (0 + Z.of_nat 10)).
    apply fold_zcount_inv with (P := Psmall k rem0); [exact H0|].
    intros i st' Hi [s0 [-> [Hrem [Hout [Hge Hlt]]]]].
    unfold wd_step. rewrite (Hge i) by lia.
    destruct (Z_le_gt_dec (w_rem s0) 0) as [Hz|Hp].
    - (* nothing left: CopyN of 0 bytes *)
      assert (Hr0 : w_rem s0 = 0) by lia. rewrite Hr0.
      replace (Z.min 0 S) with 0 by lia. rewrite copy_nothing by lia.
      eexists. split; [reflexivity|]. cbn [w_rem w_pos w_out]. split; [lia|]. split.
      { rewrite app_nil_r. rewrite Hout, Hr0. f_equal. }
      split.
      + intros x Hx. unfold upd. destruct (x =? i) eqn:Ex; [lia|]. apply Hge. lia.
      + intros Hpos. lia.
    - assert (Hrem' : w_rem s0 = rem0 - i * S) by lia.
      rewrite copy_small by (unfold rem0 in *; lia).
      eexists. split; [reflexivity|]. cbn [w_rem w_pos w_out]. split; [lia|]. split.
      { rewrite Hout.
        replace (R * (L * 10) + k * (S * 10) + i * S) with (0 + (D - w_rem s0)) by (unfold rem0 in *; lia).
        rewrite dslice_app by lia. f_equal. lia. }
      split.
      + intros x Hx. unfold upd. destruct (x =? i) eqn:Ex; [lia|]. apply Hge. lia.
      + intros Hpos x Hx. unfold upd. destruct (x =? i) eqn:Ex.
        * lia.
        * apply Hlt; lia.
  Qed.

  Definition Qsmall (k : Z) (s0 : wstate) : Prop :=
    w_out s0 = dslice dat 0 (D - w_rem s0) /\ 0 <= w_rem s0 /\
    (0 < w_rem s0 -> w_rem s0 = D - R * (L * 10) - k * (S * 10) /\
                     forall x, 0 <= x < 10 -> w_pos s0 x = R * L + k * S).

  Lemma small_loop : forall fuel k s0, 0 <= k -> (Z.to_nat (w_rem s0) <= fuel)%nat -> Qsmall k s0 ->
    exists s1, wd_small fuel S sh (Some s0) = Some s1 /\ w_out s1 = dslice dat 0 D.
  Proof.
    facts. induction fuel as [|f IH]; intros k s0 Hk Hf [Hout [Hrem Hpos]].
    - exists s0. split; [reflexivity|]. rewrite Hout. f_equal. lia.
    - cbn [wd_small]. destruct (w_rem s0 >? 0) eqn:E.
      + destruct (Hpos ltac:(lia)) as [Hr Hp].
        assert (Hks : k < s).
        { destruct (Z_lt_ge_dec k s); auto. exfalso. assert (s * (S * 10) <= k * (S * 10)) by nia. lia. }
        destruct (small_row k (Some s0) ltac:(lia) ltac:(lia)) as [s1 [Hs1 [Hrem1 [Hout1 [_ Hlt1]]]]].
        { exists s0. split; [reflexivity|]. split; [lia|]. split; [exact Hout|]. split.
          - intros x Hx. apply Hp. lia.
          - intros _ x Hx. lia. }
        rewrite Hs1. apply (IH (k + 1) s1); try lia.
        split; [exact Hout1|]. split; [lia|]. intros Hpos1. split; [lia|].
        intros x Hx. apply Hlt1; lia.
      + exists s0. split; [reflexivity|]. rewrite Hout. f_equal. lia.
  Qed.

  Lemma write_dat_exact : write_dat L S sh D = Some (dslice dat 0 D).
  Proof.
    facts. unfold write_dat.
    assert (HRD : (Z.to_nat (R - 0) <= Z.to_nat D)%nat).
    { destruct (Z.eq_dec R 0); [lia|]. pose proof (lay_large_lt ltac:(lia)). nia. }
    destruct (large_loop (Z.to_nat D) 0 (mkW D (fun _ => 0) []) ltac:(lia) HRD)
      as [s1 [H1 [Hrem1 [Hout1 Hpos1]]]]; cbn [w_rem w_out w_pos]; try lia; try reflexivity.
    rewrite H1.
    destruct (small_loop (Z.to_nat (w_rem s1)) 0 s1 ltac:(lia) (le_n _)) as [s2 [H2 Hout2]].
    { split; [|split].
      - rewrite Hout1, Hrem1. f_equal. lia.
      - pose proof (lay_large_lt). destruct (Z.eq_dec R 0); [subst R; lia|]. lia.
      - intros _. split; [lia|]. intros x Hx. rewrite Hpos1 by lia. lia. }
    rewrite H2, Hout2. reflexivity.
  Qed.
End Decode.

Theorem decode_exact : forall dat L S buf D,
  sizes_ok L S buf -> 0 <= D ->
  write_dat L S (data_shards dat L S buf D) D = Some (dslice dat 0 D).
Proof.
  intros dat L S buf D Hok HD.
  destruct (sizes_ok_pos _ _ _ Hok) as [HL [HS Hb]].
  destruct (shards_facts dat L S buf D Hok HD) as [R [s [Hlay EF]]].
  eapply write_dat_exact; eauto.
Qed.
