(* C29: the first, purely syntactic trigger sets (no ".." segment / no ".uploads" segment
   in any string of the request) contain the narrowed ones of model/S3Paths.v on the
   routes they were stated for; the first versions of the partial theorems follow from
   the narrowed ones (proof/S3PathsProofs.v). *)
From Coq Require Import List NArith Bool String Ascii Arith Lia.
From SW Require Import model.S3List model.S3Paths proof.S3PathsProofs.
Import ListNotations.
Local Open Scope list_scope.
Local Open Scope string_scope.

Definition old_route (r : route) : bool :=
  match r with
  | RList _ _ _ _ | RListUploads | RPutBucket | RDeleteBucket | RHeadBucket | RPostPolicy => false
  | _ => true
  end.

Section NoSeg.
  Variable bad : string -> bool.          (* the segment names that do not occur *)
  Variable forbid : string -> bool.
  Hypothesis bad_dotdot : bad ".." = true.
  Hypothesis forbid_bad : forall s, forbid s = true -> bad s = true.
  Hypothesis bad_empty : bad "" = false.
  Hypothesis bad_dot : bad "." = false.

  Definition okl (l : list string) : Prop := forall s, In s l -> bad s = false.
  Definition free (s : string) : Prop := okl (split_slash s).

  Lemma okl_esc : forall L st, okl L -> escapes forbid st L = false.
  Proof.
    induction L as [|s L IH]; intros st O; [reflexivity|].
    assert (Bs : bad s = false) by (apply O; left; reflexivity).
    assert (OL : okl L) by (intros x Hx; apply O; right; exact Hx).
    simpl. destruct (skip_seg s); [apply IH; exact OL|].
    destruct (s =? "..") eqn:ED.
    - apply String.eqb_eq in ED. subst s. rewrite bad_dotdot in Bs. discriminate.
    - assert (Fs : forbid s = false).
      { destruct (forbid s) eqn:EF; [|reflexivity]. rewrite (forbid_bad s EF) in Bs. discriminate. }
      destruct st as [|t st']; [rewrite Fs|]; apply IH; exact OL.
  Qed.

  Lemma free_esc : forall s, free s -> escapes forbid [] (split_slash s) = false.
  Proof. intros s H. apply okl_esc. exact H. Qed.

  Lemma okl_nodd : forall l, okl l -> nodd l.
  Proof. intros l H s Hs E. subst s. rewrite (H _ Hs) in bad_dotdot. discriminate. Qed.

  Lemma okl_app : forall a b, okl a -> okl b -> okl (a ++ b).
  Proof. intros a b Ha Hb s Hs. apply in_app_or in Hs. destruct Hs; [apply Ha | apply Hb]; assumption. Qed.

  Lemma okl_app_l : forall a b, okl (a ++ b) -> okl a.
  Proof. intros a b H s Hs. apply H. apply in_or_app. left. exact Hs. Qed.

  Lemma okl_app_r : forall a b, okl (a ++ b) -> okl b.
  Proof. intros a b H s Hs. apply H. apply in_or_app. right. exact Hs. Qed.

  Lemma okl_one : forall s, bad s = false -> okl [s].
  Proof. intros s H x [E|[]]. subst x. exact H. Qed.

  Lemma okl_cons : forall s l, bad s = false -> okl l -> okl (s :: l).
  Proof. intros s l H O x [E|Hx]; [subst x; exact H | exact (O x Hx)]. Qed.

  Lemma free_slash : forall k, free (String slash k) <-> free k.
  Proof.
    intros k. unfold free. change (String slash k) with ("" ++ String slash k). rewrite split_app_slash. simpl.
    split; intros H.
    - intros x Hx. apply H. right. exact Hx.
    - apply okl_cons; assumption.
  Qed.

  Lemma free_norm_object : forall o, free o -> free (norm_object o).
  Proof.
    intros o H. unfold norm_object. destruct (starts_with_slash o); [exact H|].
    change ("/" ++ o) with (String slash o). apply free_slash. exact H.
  Qed.

  Lemma okl_trim : forall s, okl (split_slash s) -> okl (split_slash (trim_leading_slash s)).
  Proof.
    intros s O. destruct s as [|c r]; [exact O|]. simpl. destruct (Ascii.eqb c slash) eqn:E; [|exact O].
    apply ascii_eqb_true in E. subst c.
    change (String slash r) with ("" ++ String slash r) in O. rewrite split_app_slash in O. exact (okl_app_r _ _ O).
  Qed.

  Lemma okl_split_join : forall L, okl L -> Forall (fun s => no_slash s = true) L -> okl (split_slash (join_slash L)).
  Proof.
    intros L O N. destruct L as [|a L'].
    - simpl. apply okl_one. exact bad_empty.
    - rewrite split_join; [exact O | discriminate | exact N].
  Qed.

  Lemma filter_keep_props : forall S, okl S -> Forall (fun s => no_slash s = true) S ->
    okl (filter keep S) /\ Forall (fun s => no_slash s = true) (filter keep S).
  Proof.
    intros S O N. split.
    - intros s Hs. apply filter_In in Hs. apply O. exact (proj1 Hs).
    - apply Forall_forall. intros s Hs. apply filter_In in Hs. rewrite Forall_forall in N. apply N. exact (proj1 Hs).
  Qed.

  Lemma okl_clean_any : forall x, okl (split_slash x) -> okl (split_slash (clean x)).
  Proof.
    intros x O.
    assert (N : Forall (fun s => no_slash s = true) (split_slash x)) by (apply Forall_forall; intros s Hs; exact (split_segs_no_slash _ _ Hs)).
    destruct (filter_keep_props _ O N) as [OL NL].
    unfold clean. destruct (starts_with_slash x).
    - rewrite norm_nodd by (apply okl_nodd; exact O).
      change ("/" ++ join_slash (filter keep (split_slash x))) with ("" ++ String slash (join_slash (filter keep (split_slash x)))).
      rewrite split_app_slash. apply okl_app; [apply okl_one; exact bad_empty | apply okl_split_join; assumption].
    - rewrite norm_nodd by (apply okl_nodd; exact O).
      destruct (filter keep (split_slash x)) as [|a L'] eqn:EL.
      + apply okl_one. exact bad_dot.
      + rewrite <- EL. apply okl_split_join; rewrite EL; assumption.
  Qed.

  (* completeMultipartUpload's directory and entry name have no new segments *)
  Lemma free_complete_rel : forall key, free key -> free (complete_rel_dir key ++ "/" ++ path_base key).
  Proof.
    intros key O. unfold free in *.
    assert (OE : okl (split_slash (path_base key))).
    { unfold path_base. destruct (key =? ""); [apply okl_one; exact bad_dot|].
      destruct (last_nonempty (split_slash key)) as [s|] eqn:EL.
      - pose proof (last_nonempty_in _ _ EL) as Hin.
        rewrite (no_slash_split s (split_segs_no_slash _ _ Hin)). apply okl_one. apply O. exact Hin.
      - simpl. intros s [E|[E|[]]]; subst s; exact bad_empty. }
    assert (OD : okl (split_slash (path_dir key))).
    { unfold path_dir. destruct (rcut_slash key) as [[d0 n]|] eqn:R; [|apply okl_one; exact bad_dot].
      apply okl_clean_any. change (d0 ++ "/") with (d0 ++ String slash "").
      rewrite split_app_slash. pose proof (rcut_split _ _ _ R) as S. rewrite S in O.
      apply okl_app; [exact (okl_app_l _ _ O) | apply okl_one; exact bad_empty]. }
    assert (ODD : okl (split_slash (complete_rel_dir key))).
    { unfold complete_rel_dir. apply okl_trim. destruct (path_dir key =? "."); [apply okl_one; exact bad_empty | exact OD]. }
    change (complete_rel_dir key ++ "/" ++ path_base key) with (complete_rel_dir key ++ String slash (path_base key)).
    rewrite split_app_slash. apply okl_app; assumption.
  Qed.

  (* one more URL decoding behind a prefix without "%" *)
  Lemma dec1_nopct : forall pre t, no_pct pre = true -> dec1 (pre ++ t) = pre ++ dec1 t.
  Proof.
    intros pre t NP. unfold dec1. rewrite (pct_decode_nopct pre t NP). destruct (pct_decode t); reflexivity.
  Qed.

  Lemma free_dec1_tail : forall pre k, no_pct pre = true ->
    free (dec1 (pre ++ String slash k)) -> free (dec1 (String slash k)).
  Proof.
    intros pre k NP H. rewrite (dec1_nopct pre _ NP) in H. rewrite dec1_slash in *.
    apply free_slash. unfold free in H. rewrite split_app_slash in H. exact (okl_app_r _ _ H).
  Qed.
End NoSeg.

(* ---------- the two instances ---------- *)

Definition bad_dd (s : string) : bool := s =? "..".
Definition bad_up (s : string) : bool := (s =? "..") || (s =? ".uploads").

Lemma has_seg_okl : forall x s, has_seg x s = false -> forall y, In y (split_slash s) -> (y =? x) = false.
Proof.
  intros x s H y Hy. unfold has_seg in H.
  destruct (y =? x) eqn:E; [|reflexivity]. apply String.eqb_eq in E. subst y.
  assert (existsb (String.eqb x) (split_slash s) = true).
  { apply existsb_exists. exists x. split; [exact Hy | apply String.eqb_refl]. }
  rewrite H in H0. discriminate.
Qed.

Lemma free_dd_of : forall s, has_dotdot s = false -> free bad_dd s.
Proof. intros s H y Hy. unfold bad_dd. exact (has_seg_okl ".." s H y Hy). Qed.

Lemma free_up_of : forall s, has_dotdot s = false -> has_seg ".uploads" s = false -> free bad_up s.
Proof.
  intros s H1 H2 y Hy. unfold bad_up.
  rewrite (has_seg_okl ".." s H1 y Hy). rewrite (has_seg_okl ".uploads" s H2 y Hy). reflexivity.
Qed.

Lemma forbid_none_bad : forall bad s, forbid_none s = true -> bad s = true.
Proof. intros bad s H. discriminate. Qed.

Lemma forbid_uploads_bad : forall s, forbid_uploads s = true -> bad_up s = true.
Proof. intros s H. unfold forbid_uploads in H. unfold bad_up. rewrite H. apply orb_true_r. Qed.

Lemma existsb_app_false : forall A (f : A -> bool) l1 l2, existsb f (l1 ++ l2) = false -> existsb f l1 = false /\ existsb f l2 = false.
Proof. intros A f l1 l2 H. rewrite existsb_app in H. apply orb_false_iff in H. exact H. Qed.

Lemma existsb_false_all : forall A (f : A -> bool) l, (forall x, In x l -> f x = false) -> existsb f l = false.
Proof.
  intros A f l H. destruct (existsb f l) eqn:E; [|reflexivity].
  apply existsb_exists in E. destruct E as [x [Hx Fx]]. rewrite (H x Hx) in Fx. discriminate.
Qed.

(* what the old trigger says about the strings of a request, for a set `bad` of absent
   segment names *)
Record old_free (bad : string -> bool) (q : req) : Prop := {
  of_object : free bad (q_object q);
  of_opath : free bad (dec1 (bucket_dir (q_bucket q) ++ norm_object (q_object q)));
  of_src : (q_src q =? "") = false -> free bad (dec1 (src_path q));
  of_keys : forall k, In k (q_keys q) -> free bad k
}.

Lemma src_rel_empty : forall q, (q_src q =? "") = true -> dec1 (src_rel q) = "/".
Proof. intros q H. apply String.eqb_eq in H. unfold src_rel. rewrite H. reflexivity. Qed.

Section Cover.
  Variable bad : string -> bool.
  Variable forbid : string -> bool.
  Hypothesis bad_dotdot : bad ".." = true.
  Hypothesis forbid_bad : forall s, forbid s = true -> bad s = true.
  Hypothesis bad_empty : bad "" = false.
  Hypothesis bad_dot : bad "." = false.

  Definition esc_free (s : string) : Prop := escapes forbid [] (split_slash s) = false.

  Lemma cover_object : forall q, old_free bad q -> esc_free (rel_object q).
  Proof.
    intros q H. apply (free_esc bad forbid bad_dotdot forbid_bad). unfold rel_object.
    apply (free_norm_object bad bad_empty). exact (of_object bad q H).
  Qed.

  Lemma cover_object_dec : forall q, bad_bucket (q_bucket q) = false -> old_free bad q -> esc_free (dec1 (rel_object q)).
  Proof.
    intros q G H. apply (free_esc bad forbid bad_dotdot forbid_bad). unfold rel_object.
    destruct (norm_object_form (q_object q)) as [k Ek]. pose proof (of_opath bad q H) as A. rewrite Ek in *.
    destruct (good_spec _ G) as [_ [_ [_ [_ NP]]]].
    exact (free_dec1_tail bad bad_empty (bucket_dir (q_bucket q)) k (no_pct_bucket_dir _ NP) A).
  Qed.

  Lemma cover_src : forall q, ((q_src q =? "") = false -> bad_bucket (src_bucket q) = false) ->
    old_free bad q -> esc_free (dec1 (src_rel q)).
  Proof.
    intros q GS H. destruct (q_src q =? "") eqn:E.
    - unfold esc_free. rewrite (src_rel_empty q E). reflexivity.
    - apply (free_esc bad forbid bad_dotdot forbid_bad).
      pose proof (of_src bad q H E) as A. pose proof (GS eq_refl) as G.
      unfold src_path in A. unfold src_bucket in G. unfold src_rel.
      destruct (src_object_form (dec1 (q_src q))) as [o Eo].
      destruct (src_bucket_object (dec1 (q_src q))) as [sb so]. simpl in *. subst so.
      destruct (good_spec _ G) as [_ [_ [_ [_ NP]]]].
      exact (free_dec1_tail bad bad_empty (bucket_dir sb) o (no_pct_bucket_dir _ NP) A).
  Qed.

  Lemma cover_keys : forall q k, old_free bad q -> In k (q_keys q) -> esc_free k.
  Proof. intros q k H Hk. apply (free_esc bad forbid bad_dotdot forbid_bad). exact (of_keys bad q H k Hk). Qed.
End Cover.

Lemma old_free_dd : forall q, req_dotdot q = false -> old_free bad_dd q.
Proof.
  intros q T. unfold req_dotdot in T. apply orb_false_iff in T. destruct T as [T1 _].
  apply existsb_app_false in T1. destruct T1 as [TO _]. unfold obj_paths in TO.
  constructor.
  - apply free_dd_of. apply (existsb_false_in _ _ _ _ TO). left. reflexivity.
  - apply free_dd_of. apply (existsb_false_in _ _ _ _ TO). right. left. reflexivity.
  - intros E. apply free_dd_of. apply (existsb_false_in _ _ _ _ TO). right. right. apply in_or_app. left.
    rewrite E. left. reflexivity.
  - intros k Hk. apply free_dd_of. apply (existsb_false_in _ _ _ _ TO). right. right. apply in_or_app. right. exact Hk.
Qed.

Lemma old_src_good : forall q, req_dotdot q = false -> (q_src q =? "") = false -> bad_bucket (src_bucket q) = false.
Proof.
  intros q H E. unfold req_dotdot in H. apply orb_false_iff in H. destruct H as [_ H].
  rewrite E in H. simpl in H. exact H.
Qed.

Lemma old_src_bad : forall q, req_dotdot q = false -> src_bad q = false.
Proof.
  intros q T. unfold src_bad.
  assert (K : negb (src_bucket q =? "") && bad_bucket (src_bucket q) = false).
  { destruct (q_src q =? "") eqn:E.
    - apply String.eqb_eq in E. unfold src_bucket. rewrite E. reflexivity.
    - rewrite (old_src_good q T E). apply andb_false_r. }
  destruct (q_route q); try reflexivity; exact K.
Qed.

Lemma up_rel_free_dd : forall q, has_dotdot (q_upload q) = false -> climbs (up_rel q) = false.
Proof.
  intros q H. unfold climbs, up_rel. rewrite split_uploads_rel.
  apply (okl_esc bad_dd forbid_none eq_refl (forbid_none_bad bad_dd)).
  apply okl_cons; [reflexivity | exact (free_dd_of _ H)].
Qed.

Lemma part_rel_free_dd : forall q, bad_bucket (q_bucket q) = false ->
  has_dotdot (dec1 (uploads_dir (q_bucket q) ++ "/" ++ q_upload q ++ "/" ++ q_part q)) = false ->
  climbs (dec1 (part_rel q)) = false.
Proof.
  intros q G H. unfold climbs, part_rel. rewrite dec1_uploads_rel. rewrite split_uploads_rel.
  apply (okl_esc bad_dd forbid_none eq_refl (forbid_none_bad bad_dd)).
  apply okl_cons; [reflexivity|].
  pose proof (free_dd_of _ H) as A.
  destruct (good_spec _ G) as [_ [_ [_ [_ NP]]]].
  change (uploads_dir (q_bucket q) ++ "/" ++ q_upload q ++ "/" ++ q_part q)
    with (uploads_dir (q_bucket q) ++ String slash (q_upload q ++ "/" ++ q_part q)) in A.
  pose proof (free_dec1_tail bad_dd eq_refl _ _ (no_pct_uploads _ NP) A) as B.
  rewrite dec1_slash in B. exact (proj1 (free_slash bad_dd eq_refl _) B).
Qed.

Theorem dotdot_covers_climbs : forall q,
  old_route (q_route q) = true -> bad_bucket (q_bucket q) = false ->
  req_dotdot q = false -> req_climbs q = false.
Proof.
  intros q OR G T.
  pose proof (old_free_dd q T) as OF. pose proof (old_src_bad q T) as SB.
  pose proof (cover_object bad_dd forbid_none eq_refl (forbid_none_bad bad_dd) eq_refl q OF) as CO.
  pose proof (cover_object_dec bad_dd forbid_none eq_refl (forbid_none_bad bad_dd) eq_refl q G OF) as CD.
  pose proof (cover_src bad_dd forbid_none eq_refl (forbid_none_bad bad_dd) eq_refl q (old_src_good q T) OF) as CS.
  pose proof (cover_keys bad_dd forbid_none eq_refl (forbid_none_bad bad_dd) q) as CK.
  assert (TM : has_dotdot (q_upload q) = false /\
               has_dotdot (dec1 (uploads_dir (q_bucket q) ++ "/" ++ q_upload q ++ "/" ++ q_part q)) = false).
  { unfold req_dotdot in T. apply orb_false_iff in T. destruct T as [T1 _].
    apply existsb_app_false in T1. destruct T1 as [_ TM]. unfold mp_paths in TM. split.
    - apply (existsb_false_in _ _ _ _ TM). left. reflexivity.
    - apply (existsb_false_in _ _ _ _ TM). right. left. reflexivity. }
  destruct TM as [TU TP].
  pose proof (up_rel_free_dd q TU) as CU. pose proof (part_rel_free_dd q G TP) as CP.
  assert (CC : climbs (complete_rel q) = false).
  { unfold climbs, complete_rel.
    apply (free_esc bad_dd forbid_none eq_refl (forbid_none_bad bad_dd)).
    apply (free_complete_rel bad_dd eq_refl eq_refl eq_refl).
    unfold rel_object. destruct (norm_object_form (q_object q)) as [k Ek]. rewrite Ek.
    change (trim_leading_slash (String slash k)) with k.
    pose proof (free_norm_object bad_dd eq_refl _ (of_object bad_dd q OF)) as A. rewrite Ek in A.
    exact (proj1 (free_slash bad_dd eq_refl k) A). }
  unfold req_climbs. rewrite SB. rewrite orb_false_r.
  apply existsb_false_all. intros s Hs. unfold rels in Hs.
  destruct (q_route q); try discriminate OR; simpl in Hs;
    repeat (destruct Hs as [Hs|Hs]; [subst s; assumption|]); try destruct Hs.
  apply CK; [exact OF | exact Hs].
Qed.

(* the first version of the containment theorem *)
Theorem contained_partial : forall fx q,
  old_route (q_route q) = true ->
  bad_bucket (q_bucket q) = false -> req_dotdot q = false -> all_contained fx q = true.
Proof.
  intros fx q OR G T. pose proof (dotdot_covers_climbs q OR G T) as C.
  apply contained_partial2; try assumption.
  intros k Hk. exact (cover_keys bad_dd forbid_none eq_refl (forbid_none_bad bad_dd) q k (old_free_dd q T) Hk).
Qed.

(* ---------- the multipart area ---------- *)

Lemma old_free_up : forall q, req_dotdot q = false -> existsb (has_seg ".uploads") (obj_paths q) = false ->
  old_free bad_up q.
Proof.
  intros q T TU. unfold req_dotdot in T. apply orb_false_iff in T. destruct T as [T1 _].
  apply existsb_app_false in T1. destruct T1 as [TO _]. unfold obj_paths in TO, TU.
  constructor.
  - apply free_up_of; [apply (existsb_false_in _ _ _ _ TO) | apply (existsb_false_in _ _ _ _ TU)]; left; reflexivity.
  - apply free_up_of; [apply (existsb_false_in _ _ _ _ TO) | apply (existsb_false_in _ _ _ _ TU)]; right; left; reflexivity.
  - intros E. apply free_up_of; [apply (existsb_false_in _ _ _ _ TO) | apply (existsb_false_in _ _ _ _ TU)];
      right; right; apply in_or_app; left; rewrite E; left; reflexivity.
  - intros k Hk. apply free_up_of; [apply (existsb_false_in _ _ _ _ TO) | apply (existsb_false_in _ _ _ _ TU)];
      right; right; apply in_or_app; right; exact Hk.
Qed.

Theorem uploads_seg_covers_enters : forall q,
  old_route (q_route q) = true -> bad_bucket (q_bucket q) = false ->
  req_dotdot q = false -> req_uploads_seg q = false -> req_enters_uploads q = false.
Proof.
  intros q OR G T TU. unfold req_enters_uploads.
  destruct (object_route (q_route q)) eqn:OB; [|reflexivity]. simpl.
  unfold req_uploads_seg in TU. rewrite OB in TU. simpl in TU.
  pose proof (old_free_up q T TU) as OF. pose proof (old_src_bad q T) as SB.
  pose proof (cover_object bad_up forbid_uploads eq_refl forbid_uploads_bad eq_refl q OF) as CO.
  pose proof (cover_object_dec bad_up forbid_uploads eq_refl forbid_uploads_bad eq_refl q G OF) as CD.
  pose proof (cover_src bad_up forbid_uploads eq_refl forbid_uploads_bad eq_refl q (old_src_good q T) OF) as CS.
  pose proof (cover_keys bad_up forbid_uploads eq_refl forbid_uploads_bad q) as CK.
  rewrite SB. rewrite orb_false_r.
  apply existsb_false_all. intros s Hs. unfold rels in Hs.
  destruct (q_route q); try discriminate OR; try discriminate OB; simpl in Hs;
    repeat (destruct Hs as [Hs|Hs]; [subst s; assumption|]); try destruct Hs.
  apply CK; [exact OF | exact Hs].
Qed.

Theorem uploads_hidden_partial : forall fx q,
  old_route (q_route q) = true ->
  bad_bucket (q_bucket q) = false -> q_bucket q <> ".uploads" ->
  req_dotdot q = false -> req_uploads_seg q = false -> uploads_hidden fx q = true.
Proof.
  intros fx q OR G NU T TU.
  apply uploads_hidden_partial2; try assumption.
  exact (uploads_seg_covers_enters q OR G T TU).
Qed.
