(* C20: the step and history theorems, and the refutations of the full statements. *)
From Coq Require Import List NArith ZArith Bool String Arith Lia Permutation.
From SW Require Import model.FilerNS proof.FilerNSBase model.Chunks model.HardLink model.FilerGC
  proof.HardLinkBase proof.HardLinkInv proof.HardLinkOps proof.HardLinkProofs
  proof.FilerGCBase proof.FilerGCGeneric proof.FilerGCProofs.
Import ListNotations.
Local Open Scope list_scope.

(* ================= reading the hypothesis c20_quiet ================= *)
Lemma quiet20_parts : forall ev s o, c20_quiet ev s o = true ->
  forallb chunk_ok (op_chunks o) = true /\ fresh_op ev s o = true /\ c21_op_ok ev s o = true /\
  match o with
  | Create _ e _ | Update _ e => negb (h_dir e) || match h_chunks e with [] => true | _ => false end
  | Append p cs =>
      (total_size (match find_entry ev s p with Some e => h_chunks e | None => [] end) +
       fold_right (fun c acc => c_size c + acc) 0 cs <? max_int64)%N
  | _ => true
  end = true /\
  match o with Link _ _ _ => false | _ => true end = true /\
  forallb (fun c => negb (c_manifest c)) (op_chunks o) = true /\
  match o with
  | Rename oldp _ => match nfind s oldp with Some e => negb (h_dir e) | None => true end
  | _ => true
  end = true.
Proof.
  intros ev s o H. unfold c20_quiet, op_ok in H. repeat rewrite andb_true_iff in H. tauto.
Qed.

Lemma fresh_of : forall ev s o, PS s -> good_list (op_chunks o) -> fresh_op ev s o = true ->
  forall c, In c (fids (op_chunks o)) -> In c (ids_at s (op_path o)) \/ ~ In c (refs ev s).
Proof.
  intros ev s o P Hg H c Hc. unfold fresh_op in H. rewrite forallb_forall in H.
  rewrite (reach_good ev _ Hg) in H. specialize (H c Hc). apply orb_true_iff in H.
  rewrite (reach_at_ps ev s _ P) in H. destruct H as [H|H].
  - left. now apply mem_In.
  - right. apply negb_true_iff in H. now apply mem_false.
Qed.

Lemma dir_no_chunks : forall e, negb (h_dir e) || match h_chunks e with [] => true | _ => false end = true ->
  h_dir e = true -> h_chunks e = [].
Proof. intros e H D. rewrite D in H. simpl in H. destruct (h_chunks e); [reflexivity|discriminate]. Qed.

Lemma grpc_delete_sched : forall ev s p rec ign data,
  sched_of (grpc_delete ev s p rec ign data) = sched_of (delete_entry ev s p rec ign data).
Proof.
  intros. unfold grpc_delete. destruct (delete_entry ev s p rec ign data) as [[s1 r] d]. destruct r; reflexivity.
Qed.

Lemma scoped_good : forall ev s p r req, PS s -> Excl s ->
  (in_scope p = true -> p <> [] -> Good ev s (st_of r) (sched_of r) req) ->
  Good ev s (st_of (scoped p r s)) (sched_of (scoped p r s)) req.
Proof.
  intros ev s p r req P X H. unfold scoped. destruct (in_scope p) eqn:E.
  - apply H; [reflexivity|now apply in_scope_nonroot].
  - unfold st_of, sched_of. simpl. now apply good_same.
Qed.

(* ================= one step ================= *)
Theorem step_good20 : forall ev s o, PS s -> Excl s -> c20_quiet ev s o = true ->
  let r := step ev s o in Good ev s (st_of r) (sched_of r) (requests_deletion ev s o).
Proof.
  intros ev s o P X Hq. destruct (quiet20_parts ev s o Hq) as [Hok [Hfr [H21 [Hsp [Hnl [Hmf Hrn]]]]]].
  pose proof (good_of_flags _ Hok Hmf) as Hg.
  pose proof (fresh_of ev s o P Hg Hfr) as Hfresh.
  destruct o as [p e x|p e|p cs|p rec ign data|oldp newp|oldp newp fresh|p cs mt via|p]; simpl.
  - (* Create *)
    apply scoped_good; auto. intros _ Hp. simpl in H21. apply N.eqb_eq in H21.
    apply grpc_create_good; auto. now apply dir_no_chunks.
  - (* Update *)
    apply scoped_good; auto. intros _ Hp. simpl in H21. apply N.eqb_eq in H21.
    apply grpc_update_good; auto. now apply dir_no_chunks.
  - (* Append *)
    apply scoped_good; auto. intros _ Hp. simpl in H21, Hsp.
    rewrite (find_entry_ps ev s p P Hp) in Hsp. apply N.ltb_lt in Hsp.
    apply grpc_append_good; auto.
    intros e0 He0. unfold file_at in H21. rewrite (find_entry_ps ev s p P Hp), He0 in H21.
    now apply negb_true_iff in H21.
  - (* Delete *)
    apply scoped_good; auto. intros _ Hp. rewrite grpc_delete_st, grpc_delete_sched.
    now apply delete_entry_good.
  - (* Rename *)
    unfold grpc_rename. destruct (in_scope oldp && in_scope newp) eqn:Esc; simpl;
      [|unfold st_of, sched_of; simpl; now apply good_same].
    apply andb_true_iff in Esc. destruct Esc as [Eso Esn].
    pose proof (in_scope_nonroot oldp Eso) as Ho. pose proof (in_scope_nonroot newp Esn) as Hn.
    destruct (HardLink.is_prefix oldp (HardLink.parent newp));
      [unfold st_of, sched_of; simpl; now apply good_same|].
    rewrite (find_entry_ps ev s oldp P Ho).
    destruct (nfind s oldp) as [eo|] eqn:Eo; [|unfold st_of, sched_of; simpl; now apply good_same].
    apply negb_true_iff in Hrn. rewrite Hrn. simpl.
    now apply move_self_good.
  - discriminate.
  - (* Write *)
    apply scoped_good; auto. intros _ Hp. unfold mount_write.
    rewrite (find_entry_ps ev s p P Hp).
    destruct (nfind s p) as [e0|] eqn:E0; [|unfold st_of, sched_of; simpl; now apply good_same].
    simpl in H21. unfold file_at in H21. rewrite (find_entry_ps ev s p P Hp), E0 in H21.
    apply negb_true_iff in H21.
    destruct via.
    + apply grpc_create_good; auto.
      * apply (ps_plain _ P p e0 E0).
      * simpl. intro D. congruence.
    + apply grpc_update_good; auto.
      * apply (ps_plain _ P p e0 E0).
      * simpl. intro D. congruence.
  - (* Unlink *)
    apply scoped_good; auto. intros _ Hp. unfold mount_unlink.
    destruct (find_entry ev s p) as [e0|]; [|unfold st_of, sched_of; simpl; now apply good_same].
    rewrite grpc_delete_st, grpc_delete_sched. now apply delete_entry_good.
Qed.

Theorem step_prop_quiet : forall ev s o, PS s -> Excl s -> c20_quiet ev s o = true ->
  let r := step ev s o in
  step_prop ev s o (refs ev s) (refs ev (st_of r)) (sched_of r) = true /\ PS (st_of r) /\ Excl (st_of r).
Proof.
  intros ev s o P X Hq. pose proof (step_good20 ev s o P X Hq) as G. simpl in *.
  split; [|split; [apply (g_ps _ _ _ _ _ G)|apply (g_excl _ _ _ _ _ G)]].
  eapply good_prop; [exact G|reflexivity].
Qed.

(* no chunk id handed to a deletion sink is referenced by the state after the operation *)
Theorem no_live_deleted_quiet : forall ev s o, PS s -> Excl s -> c20_quiet ev s o = true ->
  forall c, In c (sched_of (step ev s o)) -> ~ In c (refs ev (st_of (step ev s o))).
Proof. intros ev s o P X Hq. apply (g_live _ _ _ _ _ (step_good20 ev s o P X Hq)). Qed.

(* every chunk id that stops being referenced by an operation that asks for data deletion is scheduled *)
Theorem all_garbage_scheduled_quiet : forall ev s o, PS s -> Excl s -> c20_quiet ev s o = true ->
  requests_deletion ev s o = true ->
  forall c, In c (refs ev s) -> In c (refs ev (st_of (step ev s o))) \/ In c (sched_of (step ev s o)).
Proof. intros ev s o P X Hq Hr. apply (g_garb _ _ _ _ _ (step_good20 ev s o P X Hq) Hr). Qed.

(* ================= all histories ================= *)
Lemma run_ok_quiet20 : forall ev ops s, PS s -> Excl s ->
  c20_hist_quiet ev s ops = true -> c20_run_ok ev s ops = true.
Proof.
  induction ops as [|o ops IH]; intros s P X H; [reflexivity|].
  simpl in H. apply andb_true_iff in H. destruct H as [Hq Hr].
  destruct (step_prop_quiet ev s o P X Hq) as [A [P' X']]. simpl. rewrite A. simpl. now apply IH.
Qed.

Theorem c20_history_quiet : forall ev ops,
  c20_hist_quiet ev empty_st ops = true -> c20_run_ok ev empty_st ops = true.
Proof. intros. apply run_ok_quiet20; [apply PS_empty|apply Excl_empty|assumption]. Qed.

Lemma final_ps : forall ev ops s, PS s -> Excl s -> c20_hist_quiet ev s ops = true ->
  PS (final ev s ops) /\ Excl (final ev s ops).
Proof.
  induction ops as [|o ops IH]; intros s P X H; [auto|].
  simpl in H. apply andb_true_iff in H. destruct H as [Hq Hr].
  destruct (step_prop_quiet ev s o P X Hq) as [_ [P' X']]. simpl. now apply IH.
Qed.

(* the two halves of the property at the last step of any such history *)
Theorem no_live_deleted_history : forall ev ops o,
  c20_hist_quiet ev empty_st (ops ++ [o]) = true ->
  let s := final ev empty_st ops in
  forall c, In c (sched_of (step ev s o)) -> ~ In c (refs ev (st_of (step ev s o))).
Proof.
  intros ev ops o H s.
  assert (Hs : forall ops1 s0, c20_hist_quiet ev s0 (ops1 ++ [o]) = true ->
            c20_hist_quiet ev s0 ops1 = true /\ c20_quiet ev (final ev s0 ops1) o = true).
  { induction ops1 as [|a l IH]; intros s0 H0; simpl in *.
    - apply andb_true_iff in H0. tauto.
    - apply andb_true_iff in H0. destruct H0 as [A B]. destruct (IH _ B). rewrite A. auto. }
  destruct (Hs ops empty_st H) as [H1 H2].
  destruct (final_ps ev ops empty_st PS_empty Excl_empty H1) as [P X].
  now apply no_live_deleted_quiet.
Qed.

Theorem all_garbage_scheduled_history : forall ev ops o,
  c20_hist_quiet ev empty_st (ops ++ [o]) = true ->
  let s := final ev empty_st ops in
  requests_deletion ev s o = true ->
  forall c, In c (refs ev s) -> In c (refs ev (st_of (step ev s o))) \/ In c (sched_of (step ev s o)).
Proof.
  intros ev ops o H s.
  assert (Hs : forall ops1 s0, c20_hist_quiet ev s0 (ops1 ++ [o]) = true ->
            c20_hist_quiet ev s0 ops1 = true /\ c20_quiet ev (final ev s0 ops1) o = true).
  { induction ops1 as [|a l IH]; intros s0 H0; simpl in *.
    - apply andb_true_iff in H0. tauto.
    - apply andb_true_iff in H0. destruct H0 as [A B]. destruct (IH _ B). rewrite A. auto. }
  destruct (Hs ops empty_st H) as [H1 H2].
  destruct (final_ps ev ops empty_st PS_empty Excl_empty H1) as [P X].
  now apply all_garbage_scheduled_quiet.
Qed.

(* ================= refutations of the full statements ================= *)
Local Open Scope N_scope.
Definition g_c (k i : N) : chunk := Chunk k (i * 10) 10 k false.
Definition g_m (k off size : N) : chunk := Chunk k off size k true.
Definition g_file (tag : N) (cs : list chunk) : hentry := mk_hentry false 420 tag tag tag cs 0 0%Z.
Definition qa : path := ["a"%string].
Definition qb : path := ["b"%string].
Definition qc : path := ["c"%string].
Definition qd : path := ["d"%string].

(* k = 0: a flush (CreateEntry) that wraps the existing chunks into a manifest deletes them *)
Definition g_ev0 : env := mk_env [(50, [g_c 1 0; g_c 2 1])] 0.
Definition g_w0 : list op :=
  [Create qa (g_file 1 [g_c 1 0; g_c 2 1]) false; Write qa [g_m 50 0 20; g_c 3 2] 2 true].
(* k = 1: one name of a hard-linked file deleted with data deletion *)
Definition g_ev : env := mk_env [] 0.
Definition g_w1 : list op :=
  [Create qa (g_file 1 [g_c 1 0; g_c 2 1]) false; Link qa qb 1; Delete qa false false true].
(* k = 2: the last links go away through a recursive delete with data deletion *)
Definition g_w2 : list op :=
  [Create qd (mk_hentry true 493 9 9 9 [] 0 0%Z) false;
   Create (qd ++ qa) (g_file 1 [g_c 1 0; g_c 2 1]) false; Link (qd ++ qa) (qd ++ qb) 1;
   Create (qd ++ qc) (g_file 2 [g_c 3 0]) false; Delete qd true false true].
(* k = 3: UpdateEntry replaces a manifest by another one over the same chunks *)
Definition g_ev3 : env := mk_env [(50, [g_c 1 0; g_c 2 1]); (51, [g_c 1 0; g_c 2 1; g_c 3 2])] 0.
Definition g_w3 : list op :=
  [Create qa (g_file 1 [g_c 1 0; g_c 2 1]) false; Update qa (g_file 1 [g_m 50 0 20; g_c 3 2]);
   Update qa (g_file 1 [g_m 51 0 30])].
(* k = 4: a renamed link is a plain copy; a write through the other name deletes the shared chunks *)
Definition g_w4 : list op :=
  [Create qa (g_file 1 [g_c 1 0; g_c 2 1]) false; Link qa qb 1; Rename qa qc; Write qb [g_c 5 0] 9 true].

Definition assumptions_hold (ev : env) (ops : list op) : bool := flat_env ev && hist_ok ev empty_st ops.

(* the chunks scheduled by the last operation of a history that are still referenced afterwards *)
Definition live_deleted (ev : env) (ops : list op) : list N :=
  let s := final ev empty_st (removelast ops) in
  let r := step ev s (last ops (Unlink [])) in
  filter (fun c => mem c (refs ev (st_of r))) (sched_of r).
(* the chunks that stopped being referenced by the last operation and were not scheduled *)
Definition leaked (ev : env) (ops : list op) : list N :=
  let s := final ev empty_st (removelast ops) in
  let r := step ev s (last ops (Unlink [])) in
  filter (fun c => negb (mem c (refs ev (st_of r))) && negb (mem c (sched_of r))) (refs ev s).

Theorem no_live_deleted_refuted :
  (assumptions_hold g_ev0 g_w0 = true /\ live_deleted g_ev0 g_w0 = [1; 2]) /\
  (assumptions_hold g_ev g_w1 = true /\ live_deleted g_ev g_w1 = [1; 2]) /\
  (assumptions_hold g_ev3 g_w3 = true /\ live_deleted g_ev3 g_w3 = [1; 2]) /\
  (assumptions_hold g_ev g_w4 = true /\ live_deleted g_ev g_w4 = [1; 2]).
Proof. repeat split; vm_compute; reflexivity. Qed.

Theorem all_garbage_scheduled_refuted :
  assumptions_hold g_ev g_w2 = true /\
  requests_deletion g_ev (final g_ev empty_st (removelast g_w2)) (last g_w2 (Unlink [])) = true /\
  leaked g_ev g_w2 = [1; 2; 1; 2].
Proof. repeat split; vm_compute; reflexivity. Qed.

Theorem history_refuted :
  exists ev ops, assumptions_hold ev ops = true /\ c20_run_ok ev empty_st ops = false.
Proof. exists g_ev, g_w1. split; vm_compute; reflexivity. Qed.

(* each witness fails, and every offending chunk of every failing step is explained by the finding it is the witness of *)
Theorem witness_triggers :
  first_failure g_ev0 g_w0 = Some (Some 0) /\
  first_failure g_ev g_w1 = Some (Some 1) /\
  first_failure g_ev g_w2 = Some (Some 2) /\
  first_failure g_ev3 g_w3 = Some (Some 3) /\
  first_failure g_ev g_w4 = Some (Some 4).
Proof. repeat split; vm_compute; reflexivity. Qed.

(* the explanations are per chunk: the same failing steps with one more, unrelated, violation are NOT
   classified.  g_w1x: the k=1 witness on a filer where a client also shares chunk 7 between two plain
   files (outside the assumptions) and deletes one of them: chunk 7 is explained by nothing *)
Definition g_w1x : list op :=
  [Create qc (g_file 3 [g_c 7 0]) false; Create qd (g_file 4 [g_c 7 0]) false;
   Create qa (g_file 1 [g_c 1 0; g_c 2 1]) false; Link qa qb 1; Delete qa false false true;
   Delete qc false false true].
Theorem unexplained_not_classified : first_failure g_ev g_w1x = Some None.
Proof. vm_compute. reflexivity. Qed.

(* ================= the failure list is exactly the failing steps ================= *)
Lemma filter_nil_forall : forall {A} (f : A -> bool) l, filter f l = [] <-> forallb (fun x => negb (f x)) l = true.
Proof.
  induction l as [|x l IH]; simpl; [tauto|]. destruct (f x); simpl; [split; discriminate|exact IH].
Qed.

Lemma step_prop_offending : forall ev s o rb ra sched,
  step_prop ev s o rb ra sched = true <->
  live_ids ra sched = [] /\ leaked_ids (requests_deletion ev s o) rb ra sched = [].
Proof.
  intros. unfold step_prop, no_live_b, disjoint, live_ids, leaked_ids, all_garbage_b.
  rewrite andb_true_iff, filter_nil_forall.
  destruct (requests_deletion ev s o).
  - rewrite filter_nil_forall.
    assert (E : forallb (fun c => mem c ra || mem c sched) rb =
                forallb (fun x => negb (negb (mem x ra) && negb (mem x sched))) rb).
    { clear. induction rb as [|c rb IHrb]; simpl; [reflexivity|]. rewrite IHrb.
      destruct (mem c ra), (mem c sched); reflexivity. }
    rewrite E. tauto.
  - tauto.
Qed.

Theorem failures_complete : forall ev ops taint s,
  failures ev taint s ops = [] <-> c20_run_ok ev s ops = true.
Proof.
  induction ops as [|o ops IH]; intros taint s; simpl; [tauto|].
  rewrite andb_true_iff, step_prop_offending, <- (IH (taint_of ev s o ++ taint)).
  split.
  - intro H. apply app_eq_nil in H. destruct H as [H1 H2]. apply app_eq_nil in H2. destruct H2 as [H2 H3].
    apply map_eq_nil in H1. apply map_eq_nil in H2. auto.
  - intros [[H1 H2] H3]. rewrite H1, H2, H3. reflexivity.
Qed.

(* no step of a history inside the hypothesis of the partial theorems has an offending chunk *)
Theorem quiet_no_failures : forall ev ops,
  c20_hist_quiet ev empty_st ops = true -> first_failure ev ops = None.
Proof.
  intros ev ops H. unfold first_failure.
  assert (E : failures ev [] empty_st ops = []) by (apply failures_complete; now apply c20_history_quiet).
  now rewrite E.
Qed.

(* a history is unclassified exactly when some offending chunk has no explanation *)
Theorem first_failure_none : forall ev ops,
  first_failure ev ops = None <-> c20_run_ok ev empty_st ops = true.
Proof.
  intros. unfold first_failure. rewrite <- (failures_complete ev ops [] empty_st).
  destruct (failures ev [] empty_st ops); split; intro H; try reflexivity; discriminate.
Qed.

(* the mount's own discipline over a hard link (link, write through a name, unlink both) and an
   UpdateEntry that wraps chunks into a manifest satisfy the property at every step, although they
   are outside c20_quiet: no trigger is history-wide any more *)
Definition g_mount : list op :=
  [Create qd (mk_hentry true 493 9 9 9 [] 0 0%Z) false;
   Create qa (g_file 1 [g_c 1 0; g_c 2 1]) false; Link qa (qd ++ qb) 1;
   Write (qd ++ qb) [g_c 2 1; Chunk 4 0 10 9 false] 5 true; Unlink qa; Unlink (qd ++ qb)].
Definition g_wrapu : list op :=
  [Create qa (g_file 1 [g_c 1 0; g_c 2 1]) false; Update qa (g_file 1 [g_m 50 0 20; g_c 3 2]);
   Delete qa false false true].
Theorem clean_outside_quiet :
  (assumptions_hold g_ev g_mount = true /\ c20_hist_quiet g_ev empty_st g_mount = false /\
   first_failure g_ev g_mount = None) /\
  (assumptions_hold g_ev0 g_wrapu = true /\ c20_hist_quiet g_ev0 empty_st g_wrapu = false /\
   first_failure g_ev0 g_wrapu = None).
Proof. repeat split; vm_compute; reflexivity. Qed.

(* non-vacuity: overwrites with retained, covered and fresh chunks, an append, a rename onto an
   existing file, deletes with and without data, a recursive delete — inside the hypothesis *)
Definition g_clean : list op :=
  [Create qa (g_file 1 [g_c 1 0; g_c 2 1]) false;
   Create (qd ++ qa) (g_file 2 [g_c 3 0]) false;
   Write qa [g_c 1 0; Chunk 4 10 10 9 false; g_c 5 2] 3 true;
   Update qa (g_file 4 [g_c 1 0; g_c 6 1]);
   Append (qd ++ qa) [Chunk 7 0 5 7 false];
   Create qb (g_file 5 [g_c 8 0]) false;
   Rename qb qa;
   Delete (qd ++ qa) false false false;
   Create (qd ++ qb) (g_file 6 [g_c 9 0]) false;
   Delete qd true false true;
   Unlink qa].

Example clean_is_quiet :
  c20_hist_quiet g_ev empty_st g_clean = true /\
  map sched_of (run g_ev empty_st g_clean) =
    [[]; []; [2]; [4; 5]; []; []; [1; 6]; []; []; [9]; [8]] /\
  final g_ev empty_st g_clean = empty_st.
Proof. repeat split; vm_compute; reflexivity. Qed.
