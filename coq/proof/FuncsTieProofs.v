(* Translator tie for function bodies: proofs that the definitions GENERATED from the Go
   source text (gen/Funcs.v, harness/cmd/funcgen, regenerated on every run) equal the
   hand-written model functions the property theorems are about.  Statements are
   re-exported one by one in props/FuncsTie.v.  Hypotheses are the ranges of the Go
   parameter types, cut down (and said so) where the fixed-width code provably leaves
   the model's unbounded arithmetic. *)
From Coq Require Import ZArith NArith Lia List Bool ZifyBool.
From SW Require Import base.GoInt.
From SW Require gen.Funcs.
From SW Require model.Needle model.EcIndex model.EC model.Ttl model.Codecs model.VolPlanner model.TopoPlace model.EcBalance model.TopoCount.
Import ListNotations.
Local Open Scope Z_scope.

Ltac Zify.zify_post_hook ::= Z.to_euclidean_division_equations.

(* rewrite away every wrap whose argument is provably inside the type's range *)
Ltac unwrap1 :=
  match goal with
  | |- context [wrap_s 64 ?x] => rewrite (wrap_s64_id x) by lia
  | |- context [wrap_s 32 ?x] => rewrite (wrap_s32_id x) by lia
  | |- context [wrap_u 32 ?x] => rewrite (wrap_u32_id x) by lia
  | |- context [wrap_u 8 ?x] => rewrite (wrap_u8_id x) by lia
  | |- context [wrap_u 64 ?x] => rewrite (wrap_u64_id x) by lia
  | |- context [wrap_s 16 ?x] => rewrite (wrap_s16_id x) by lia
  | |- context [wrap_u 16 ?x] => rewrite (wrap_u16_id x) by lia
  | |- context [wrap_s 8 ?x] => rewrite (wrap_s8_id x) by lia
  end.
Ltac unwrap := repeat unwrap1.

(* ---------- weed/storage/needle: PaddingLength, NeedleBodyLength, GetActualSize ---------- *)

(* int32 arithmetic: NeedleHeaderSize + size + NeedleChecksumSize + TimestampSize must not pass
   MaxInt32, i.e. size <= 2^31-1-28.  Above that the Go function wraps (see padding_wraps). *)
Definition size_max : N := 2147483619.

Lemma tie_PaddingLength_proof : forall size v : N,
  (size <= size_max)%N -> (v < 256)%N ->
  Funcs.PaddingLength (Z.of_N size) (Z.of_N v) = Z.of_N (Needle.padding_length size v).
Proof.
  intros size v Hs Hv. unfold size_max in Hs.
  unfold Funcs.PaddingLength, Needle.padding_length, Needle.ts_size,
    Needle.NeedlePaddingSize, Needle.NeedleHeaderSize, Needle.NeedleChecksumSize, Needle.TimestampSize.
  replace (Z.of_N v =? 3) with (v =? 3)%N by (destruct (N.eqb_spec v 3), (Z.eqb_spec (Z.of_N v) 3); lia).
  destruct (v =? 3)%N; unwrap; lia.
Qed.

(* the part of the int32 range left out above is real: the Go code returns 13 where the
   padding of a record is 1..8 (a body of 2 GiB - 1 is not reachable through the write path,
   whose Size is the int32 length of an in-memory buffer plus a few bytes) *)
Example padding_wraps : Funcs.PaddingLength 2147483647 3 = 13.
Proof. vm_compute. reflexivity. Qed.

Lemma padding_small : forall size v, (1 <= Needle.padding_length size v <= 8)%N.
Proof.
  intros. unfold Needle.padding_length, Needle.NeedlePaddingSize. lia.
Qed.

Lemma tie_NeedleBodyLength_proof : forall size v : N,
  (size <= size_max)%N -> (v < 256)%N ->
  Funcs.NeedleBodyLength (Z.of_N size) (Z.of_N v) = Z.of_N (Needle.body_length size v).
Proof.
  intros size v Hs Hv. unfold Funcs.NeedleBodyLength, Needle.body_length.
  rewrite tie_PaddingLength_proof by assumption.
  pose proof (padding_small size v) as Hp. unfold size_max in Hs.
  unfold Needle.ts_size, Needle.NeedleChecksumSize, Needle.TimestampSize.
  replace (Z.of_N v =? 3) with (v =? 3)%N by (destruct (N.eqb_spec v 3), (Z.eqb_spec (Z.of_N v) 3); lia).
  destruct (v =? 3)%N; unwrap; lia.
Qed.

Lemma tie_GetActualSize_proof : forall size v : N,
  (size <= size_max)%N -> (v < 256)%N ->
  Funcs.GetActualSize (Z.of_N size) (Z.of_N v) = Z.of_N (Needle.actual_size size v).
Proof.
  intros size v Hs Hv. unfold Funcs.GetActualSize, Needle.actual_size.
  rewrite tie_NeedleBodyLength_proof by assumption.
  pose proof (padding_small size v) as Hp. unfold size_max in Hs.
  unfold Needle.body_length, Needle.ts_size, Needle.NeedleHeaderSize, Needle.NeedleChecksumSize, Needle.TimestampSize.
  destruct (v =? 3)%N; unwrap; lia.
Qed.

(* ---------- weed/storage/types: Size.IsDeleted, Size.IsValid (no range needed) ---------- *)

Lemma tie_Size_IsDeleted_proof : forall s : Z, Funcs.Size_IsDeleted s = EcIndex.size_is_deleted s.
Proof.
  intros. unfold Funcs.Size_IsDeleted, EcIndex.size_is_deleted, EcIndex.tombstone.
  rewrite ?Z.gtb_ltb, ?Z.geb_leb. lia.
Qed.

Lemma tie_Size_IsValid_proof : forall s : Z, Funcs.Size_IsValid s = EcIndex.size_is_valid s.
Proof.
  intros. unfold Funcs.Size_IsValid, EcIndex.size_is_valid, EcIndex.tombstone.
  rewrite ?Z.gtb_ltb, ?Z.geb_leb. lia.
Qed.

(* ---------- weed/storage/needle/volume_ttl.go ---------- *)

Definition ttl_rec (c u : N) : Funcs.TTL := Funcs.mkTTL (Z.of_N c) (Z.of_N u).

(* Count and Unit are bytes; uint32 arithmetic never wraps for a byte count *)
Lemma tie_TTL_Minutes_proof : forall c u : N, (c < 256)%N -> (u < 256)%N ->
  Funcs.TTL_Minutes (ttl_rec c u) = Z.of_N (Ttl.minutes {| Ttl.t_count := c; Ttl.t_unit := u |}).
Proof.
  intros c u Hc Hu. unfold Funcs.TTL_Minutes, ttl_rec, Ttl.minutes. cbn [Funcs.TTL_Unit Funcs.TTL_Count Ttl.t_unit Ttl.t_count].
  assert (Hcase : (u = 0 \/ u = 1 \/ u = 2 \/ u = 3 \/ u = 4 \/ u = 5 \/ u = 6 \/ 7 <= u)%N) by lia.
  destruct Hcase as [E|[E|[E|[E|[E|[E|[E|E]]]]]]]; try (subst u; cbn; unwrap; lia).
  repeat match goal with |- context [Z.of_N u =? ?k] =>
    replace (Z.of_N u =? k) with false by (symmetry; apply Z.eqb_neq; lia) end.
  destruct u as [|p]; [lia|].
  do 3 (destruct p as [p|p|]; try lia; try reflexivity).
Qed.

(* ToUint32: t == nil || t.Count == 0 -> 0, else Count<<8 + Unit *)
Lemma tie_TTL_ToUint32_proof : forall c u : N, (c < 256)%N -> (u < 256)%N ->
  Funcs.TTL_ToUint32 false (ttl_rec c u) = Z.of_N (Ttl.to_uint32 {| Ttl.t_count := c; Ttl.t_unit := u |}).
Proof.
  intros c u Hc Hu. unfold Funcs.TTL_ToUint32, ttl_rec, Ttl.to_uint32.
  cbn [Funcs.TTL_Unit Funcs.TTL_Count Ttl.t_unit Ttl.t_count orb].
  replace (Z.of_N c =? 0) with (c =? 0)%N by (destruct (N.eqb_spec c 0), (Z.eqb_spec (Z.of_N c) 0); lia).
  destruct (c =? 0)%N; [reflexivity|].
  rewrite Z.shiftl_mul_pow2 by lia. change (2 ^ 8) with 256. unwrap. lia.
Qed.
Lemma tie_TTL_ToUint32_nil_proof : forall t, Funcs.TTL_ToUint32 true t = 0.
Proof. reflexivity. Qed.

Lemma tie_toStoredByte_proof : forall a : Ascii.ascii,
  Funcs.toStoredByte (Z.of_N (Ascii.N_of_ascii a)) = Z.of_N (Ttl.to_stored_byte a).
Proof. intros [[] [] [] [] [] [] [] []]; vm_compute; reflexivity. Qed.

(* SecondsToTTL returns "" or Sprintf("%d<c>", q): the generated function returns (0,0) or (q, code of c) *)
Definition render_fmt (r : Z * Z) : String.string :=
  if snd r =? 0 then String.EmptyString else Ttl.fmt_ttl (fst r) (Ascii.ascii_of_N (Z.to_N (snd r))).

Lemma tie_SecondsToTTL_proof : forall s : Z, render_fmt (Funcs.SecondsToTTL s) = Ttl.seconds_to_ttl s.
Proof.
  intros s. unfold Funcs.SecondsToTTL, Ttl.seconds_to_ttl,
    Ttl.SEC_YEAR, Ttl.SEC_MONTH, Ttl.SEC_WEEK, Ttl.SEC_DAY, Ttl.SEC_HOUR, Ttl.SEC_MINUTE.
  repeat match goal with |- context [if ?b then _ else _] =>
    match b with context [s] => destruct b; [reflexivity|] end end.
  reflexivity.
Qed.

(* ---------- weed/storage/super_block/replica_placement.go ---------- *)

Definition rp_rec (dc rack same : N) : Funcs.ReplicaPlacement :=
  Funcs.mkReplicaPlacement (Z.of_N same) (Z.of_N rack) (Z.of_N dc).

(* the counts are Go ints; the model's counts are naturals.  Bound 2^56: no int64 overflow in
   dc*100 + rack*10 + same (valid placements have counts 0..2) *)
Lemma tie_ReplicaPlacement_Byte_proof : forall dc rack same : N,
  (dc < 2 ^ 56)%N -> (rack < 2 ^ 56)%N -> (same < 2 ^ 56)%N ->
  Funcs.ReplicaPlacement_Byte false (rp_rec dc rack same) = Z.of_N (Codecs.rp_byte (dc, rack, same)).
Proof.
  intros dc rack same H1 H2 H3. change (2 ^ 56)%N with 72057594037927936%N in *.
  unfold Funcs.ReplicaPlacement_Byte, rp_rec, Codecs.rp_byte.
  cbn [Funcs.ReplicaPlacement_DiffDataCenterCount Funcs.ReplicaPlacement_DiffRackCount Funcs.ReplicaPlacement_SameRackCount].
  unwrap. rewrite wrap_u8_mod. lia.
Qed.
Lemma tie_ReplicaPlacement_Byte_nil_proof : forall r, Funcs.ReplicaPlacement_Byte true r = 0.
Proof. reflexivity. Qed.

Lemma tie_ReplicaPlacement_GetCopyCount_proof : forall (nilflag : bool) (dc rack same : nat),
  Z.of_nat dc < 2 ^ 61 -> Z.of_nat rack < 2 ^ 61 -> Z.of_nat same < 2 ^ 61 ->
  Funcs.ReplicaPlacement_GetCopyCount nilflag (rp_rec (N.of_nat dc) (N.of_nat rack) (N.of_nat same)) =
  Z.of_nat (VolPlanner.copy_count {| VolPlanner.rp_dc := dc; VolPlanner.rp_rack := rack; VolPlanner.rp_same := same |}).
Proof.
  intros nilflag dc rack same H1 H2 H3. change (2 ^ 61) with 2305843009213693952 in *.
  unfold Funcs.ReplicaPlacement_GetCopyCount, rp_rec, VolPlanner.copy_count.
  cbn [Funcs.ReplicaPlacement_DiffDataCenterCount Funcs.ReplicaPlacement_DiffRackCount Funcs.ReplicaPlacement_SameRackCount
       VolPlanner.rp_dc VolPlanner.rp_rack VolPlanner.rp_same].
  unwrap. lia.
Qed.

(* ---------- weed/storage/erasure_coding/ec_locate.go ---------- *)

(* MaxInt64.  Offsets, sizes and block lengths are non-negative int64 values in the code;
   the model computes in unbounded Z, so the ties carry the no-overflow bounds explicitly. *)
Definition max63 : Z := 9223372036854775807.

Definition conv_iv (iv : EC.interval) : Funcs.Interval :=
  Funcs.mkInterval (EC.i_block iv) (EC.i_inner iv) (EC.i_size iv) (EC.i_large iv) (EC.i_rows iv).

Lemma quot_bounds_pos : forall a b, 0 <= a -> 0 < b -> 0 <= Z.quot a b <= a.
Proof.
  intros a b Ha Hb. rewrite Z.quot_div_nonneg by lia. split.
  - apply Z.div_pos; lia.
  - apply Z.div_le_upper_bound; nia.
Qed.

Lemma tie_locateOffsetWithinBlocks_proof : forall bl off,
  0 < bl <= max63 -> 0 <= off <= max63 ->
  Funcs.locateOffsetWithinBlocks bl off = Some (EC.locate_within bl off).
Proof.
  intros bl off Hb Ho. unfold max63 in *. unfold Funcs.locateOffsetWithinBlocks, EC.locate_within.
  destruct (Z.eqb_spec bl 0) as [|_]; [lia|]. cbn [negb].
  pose proof (quot_bounds_pos off bl) as Hq.
  rewrite (wrap_s64_id (Z.quot off bl)) by lia. reflexivity.
Qed.

Lemma nrows_bounds : forall L D, 0 < L -> 0 <= D ->
  0 <= Z.quot (D - 1) (L * 10) /\ Z.quot (D - 1) (L * 10) * (L * 10) <= D.
Proof.
  intros L D HL HD. destruct (Z.eq_dec D 0) as [->|Hn].
  - replace (0 - 1) with (- (1)) by lia. rewrite Z.quot_opp_l by lia. rewrite Z.quot_small by lia. lia.
  - rewrite Z.quot_div_nonneg by lia. split.
    + apply Z.div_pos; lia.
    + pose proof (Z.mul_div_le (D - 1) (L * 10)). lia.
Qed.

Lemma tie_locateOffset_proof : forall L S D off,
  0 < L -> L * 10 <= max63 -> 0 < S <= max63 -> 0 <= D <= max63 -> 0 <= off <= max63 ->
  Funcs.locateOffset L S D off = Some (EC.locate_offset L S D off).
Proof.
  intros L S D off HL HL10 HS HD Hoff. unfold max63 in *.
  unfold Funcs.locateOffset, EC.locate_offset, EC.n_large_rows.
  destruct (nrows_bounds L D) as [Hn0 Hn1]; try lia.
  rewrite !(wrap_s64_id (L * 10)) by lia.
  rewrite (wrap_s64_id (D - 1)) by lia.
  set (n := Z.quot (D - 1) (L * 10)) in *.
  assert (Hn2 : n <= D) by nia.
  rewrite (wrap_s64_id n) by lia.
  destruct (Z.eqb_spec (L * 10) 0) as [|_]; [lia|]. cbn [negb].
  rewrite !(wrap_s64_id (n * (L * 10))) by lia.
  destruct (off <? n * (L * 10)) eqn:E.
  - rewrite tie_locateOffsetWithinBlocks_proof by (unfold max63; lia). reflexivity.
  - apply Z.ltb_ge in E. rewrite (wrap_s64_id (off - n * (L * 10))) by lia.
    rewrite tie_locateOffsetWithinBlocks_proof by (unfold max63; lia). reflexivity.
Qed.

Lemma tie_Interval_ToShardIdAndOffset_proof : forall (iv : EC.interval) L S,
  0 <= EC.i_block iv <= max63 -> 0 <= EC.i_inner iv -> 0 <= EC.i_rows iv -> 0 <= L -> 0 <= S ->
  (if EC.i_large iv then EC.i_inner iv + Z.quot (EC.i_block iv) 10 * L
   else EC.i_inner iv + (EC.i_rows iv * L + Z.quot (EC.i_block iv) 10 * S)) <= max63 ->
  Funcs.Interval_ToShardIdAndOffset (conv_iv iv) L S = EC.to_shard_offset L S iv.
Proof.
  intros [b inn sz lg rows] L S Hb Hi Hr HL HS H. unfold max63 in *.
  unfold Funcs.Interval_ToShardIdAndOffset, EC.to_shard_offset, conv_iv.
  cbn [EC.i_block EC.i_inner EC.i_size EC.i_large EC.i_rows Funcs.Interval_BlockIndex Funcs.Interval_InnerBlockOffset
       Funcs.Interval_Size Funcs.Interval_IsLargeBlock Funcs.Interval_LargeBlockRowsCount] in *.
  assert (Hq : 0 <= Z.quot b 10 <= b) by (apply quot_bounds_pos; lia).
  assert (Hr10 : 0 <= Z.rem b 10 < 10) by (apply Z.rem_bound_pos; lia).
  rewrite (wrap_u8_id (Z.rem b 10)) by lia.
  destruct lg.
  - assert (0 <= Z.quot b 10 * L) by nia. unwrap. reflexivity.
  - assert (0 <= Z.quot b 10 * S) by nia. assert (0 <= rows * L) by nia. unwrap. reflexivity.
Qed.

(* the `for size > 0` loop: the generated loop carries the result slice as an accumulator *)
Lemma locate_loop_tie : forall L S D off n,
  0 < L <= max63 -> 0 < S <= max63 -> 0 <= n -> n * 10 <= max63 ->
  forall (fuel mf : nat) (sz : Z) (acc : list Funcs.Interval) (bi : Z) (il : bool) (inn : Z),
  (Z.to_nat sz + 1 <= fuel)%nat -> (Z.to_nat sz <= mf)%nat ->
  0 <= sz < 2147483648 -> 0 <= bi -> bi + sz <= max63 -> 0 <= inn < (if il then L else S) ->
  Funcs.LocateData_loop1 fuel L S D off sz acc bi il inn n =
  Some (acc ++ map conv_iv (EC.locate_loop mf L S n bi il inn sz)).
Proof.
  intros L S D off n HL HS Hn Hn10. unfold max63 in *.
  induction fuel as [|f IH]; intros mf sz acc bi il inn Hf Hmf Hsz Hbi Hbs Hinn; [lia|].
  cbn [Funcs.LocateData_loop1].
  destruct (sz >? 0) eqn:Epos.
  2:{ assert (sz = 0) by lia. subst sz. destruct mf; cbn [EC.locate_loop]; [|cbn]; rewrite app_nil_r; reflexivity. }
  assert (Hpos : 0 < sz) by lia.
  destruct mf as [|mf']; [lia|]. cbn [EC.locate_loop]. rewrite Epos.
  cbn [Funcs.Interval_BlockIndex Funcs.Interval_InnerBlockOffset Funcs.Interval_Size Funcs.Interval_IsLargeBlock
       Funcs.Interval_LargeBlockRowsCount].
  rewrite (wrap_s64_id (L - inn)) by (destruct il; lia).
  assert (Ebr : (if negb il then wrap_s 64 (S - inn) else L - inn) = (if il then L - inn else S - inn)).
  { destruct il; cbn [negb]; [reflexivity|]. rewrite wrap_s64_id by lia. reflexivity. }
  rewrite Ebr. clear Ebr.
  set (br := if il then L - inn else S - inn).
  assert (Hbr : 1 <= br <= max63) by (unfold br, max63; destruct il; lia). unfold max63 in Hbr.
  destruct (sz <=? br) eqn:Ele.
  - cbn [map]. unfold conv_iv. cbn [EC.i_block EC.i_inner EC.i_size EC.i_large EC.i_rows]. reflexivity.
  - apply Z.leb_gt in Ele.
    rewrite (wrap_s32_id br) by lia. rewrite (wrap_s32_id (sz - br)) by lia.
    rewrite (wrap_s64_id (bi + 1)) by lia. rewrite (wrap_s64_id (n * 10)) by lia.
    cbn [map]. 
    destruct (il && (bi + 1 =? n * 10)) eqn:Ec.
    + rewrite (IH mf' (sz - br) _ 0 false 0) by (try lia).
      rewrite <- app_assoc. reflexivity.
    + rewrite (IH mf' (sz - br) _ (bi + 1) il 0) by (try lia; destruct il; lia).
      rewrite <- app_assoc. reflexivity.
Qed.

Lemma tie_LocateData_proof : forall L S D off size (fuel : nat),
  0 < L -> L * 10 <= max63 -> 0 < S <= max63 -> 0 <= D <= max63 ->
  0 <= off -> 0 <= size < 2147483648 -> off + size <= max63 ->
  (Z.to_nat size + 1 <= fuel)%nat ->
  Funcs.LocateData fuel L S D off size = Some (map conv_iv (EC.locate_data L S D off size)).
Proof.
  intros L S D off size fuel HL HL10 HS HD Hoff Hsz Hsum Hfuel. unfold max63 in *.
  unfold Funcs.LocateData, EC.locate_data.
  rewrite tie_locateOffset_proof by (unfold max63; lia).
  destruct (nrows_bounds L D) as [Hn0 Hn1]; try lia.
  assert (Hlo : exists b il inn, EC.locate_offset L S D off = (b, il, inn) /\ 0 <= b <= off /\ 0 <= inn < (if il then L else S)).
  { unfold EC.locate_offset, EC.n_large_rows, EC.locate_within.
    set (n := Z.quot (D - 1) (L * 10)) in *.
    destruct (off <? n * (L * 10)) eqn:E.
    - exists (Z.quot off L), true, (Z.rem off L). split; [reflexivity|].
      split; [apply quot_bounds_pos; lia | apply Z.rem_bound_pos; lia].
    - apply Z.ltb_ge in E. exists (Z.quot (off - n * (L * 10)) S), false, (Z.rem (off - n * (L * 10)) S).
      split; [reflexivity|]. pose proof (quot_bounds_pos (off - n * (L * 10)) S).
      assert (0 <= n * (L * 10)) by (apply Z.mul_nonneg_nonneg; lia).
      split; [lia | apply Z.rem_bound_pos; lia]. }
  destruct Hlo as (b & il & inn & Elo & Hb & Hinn). rewrite Elo.
  rewrite !(wrap_s64_id (L * 10)) by lia.
  destruct (Z.eqb_spec (L * 10) 0) as [|_]; [lia|]. cbn [negb].
  rewrite (wrap_s64_id (D - 1)) by lia.
  unfold EC.n_large_rows.
  set (n := Z.quot (D - 1) (L * 10)) in *.
  assert (Hn2 : n * 10 <= D).
  { assert (n * 10 <= n * (L * 10)) by (apply Z.mul_le_mono_nonneg_l; lia). lia. }
  rewrite (wrap_s64_id n) by lia.
  rewrite (locate_loop_tie L S D off n) with (mf := Z.to_nat size); unfold max63; try lia.
  reflexivity.
Qed.

(* ---------- weed/storage/needle/crc.go: CRC.Value (uint32) ---------- *)

Lemma land_low_high : forall q r, 0 <= q < 2 ^ 17 -> Z.land q (Z.shiftl r 17) = 0.
Proof.
  intros q r Hq. apply Z.bits_inj'. intros n Hn. rewrite Z.land_spec, Z.bits_0.
  destruct (Z_lt_le_dec n 17).
  - rewrite Z.shiftl_spec_low by lia. apply andb_false_r.
  - rewrite <- (Z.mod_small q (2 ^ 17)) by lia. rewrite Z.mod_pow2_bits_high by lia. reflexivity.
Qed.

Lemma tie_CRC_Value_proof : forall c : N, (c < 4294967296)%N ->
  Funcs.CRC_Value (Z.of_N c) = Z.of_N (Needle.crc_value c).
Proof.
  intros c Hc. unfold Funcs.CRC_Value, Needle.crc_value.
  set (z := Z.of_N c). assert (Hz : 0 <= z < 4294967296) by (unfold z; lia).
  rewrite Z.shiftr_div_pow2 by lia. rewrite Z.shiftl_mul_pow2 by lia.
  change (2 ^ 15) with 32768. change (2 ^ 17) with 131072.
  rewrite (wrap_u32_mod (z * 131072)).
  assert (E : (z * 131072) mod 4294967296 = Z.shiftl (z mod 32768) 17).
  { rewrite Z.shiftl_mul_pow2 by lia. change (2 ^ 17) with 131072. lia. }
  rewrite E.
  assert (Hq : 0 <= z / 32768 < 2 ^ 17) by (change (2 ^ 17) with 131072; lia).
  rewrite <- Z.lxor_lor by (apply land_low_high; exact Hq).
  rewrite <- Z.add_nocarry_lxor by (apply land_low_high; exact Hq).
  rewrite Z.shiftl_mul_pow2 by lia. change (2 ^ 17) with 131072.
  rewrite wrap_u32_mod. unfold z. lia.
Qed.

(* ---------- weed/topology/disk.go: DiskUsageCounts.FreeSpace (int64) ---------- *)

Definition conv_counts (c : TopoPlace.counts) : Funcs.DiskUsageCounts :=
  Funcs.mkDiskUsageCounts (TopoPlace.volumeCount c) (TopoPlace.remoteVolumeCount c) (TopoPlace.activeVolumeCount c)
    (TopoPlace.ecShardCount c) (TopoPlace.maxVolumeCount c).

(* counters within +-2^61: no int64 overflow in max + remote - volume - ec/10 - 1 *)
Definition small61 (x : Z) : Prop := - 2305843009213693952 <= x <= 2305843009213693952.

Lemma tie_DiskUsageCounts_FreeSpace_proof : forall (nilflag : bool) (c : TopoPlace.counts),
  small61 (TopoPlace.volumeCount c) -> small61 (TopoPlace.remoteVolumeCount c) ->
  small61 (TopoPlace.ecShardCount c) -> small61 (TopoPlace.maxVolumeCount c) ->
  Funcs.DiskUsageCounts_FreeSpace nilflag (conv_counts c) = TopoPlace.free_space c.
Proof.
  intros nilflag [v r a e m] Hv Hr He Hm. unfold small61 in *.
  unfold Funcs.DiskUsageCounts_FreeSpace, TopoPlace.free_space, conv_counts, TopoPlace.DataShardsCount.
  cbn [TopoPlace.volumeCount TopoPlace.remoteVolumeCount TopoPlace.activeVolumeCount TopoPlace.ecShardCount TopoPlace.maxVolumeCount
       Funcs.DiskUsageCounts_volumeCount Funcs.DiskUsageCounts_remoteVolumeCount Funcs.DiskUsageCounts_activeVolumeCount
       Funcs.DiskUsageCounts_ecShardCount Funcs.DiskUsageCounts_maxVolumeCount] in *.
  rewrite Z.gtb_ltb. destruct (0 <? e); unwrap; reflexivity.
Qed.

(* ---------- weed/operation/assign_file_id.go: StorageOption.TtlString ---------- *)

Lemma tie_StorageOption_TtlString_proof : forall (nilflag fsync : bool) (s growth : Z),
  render_fmt (Funcs.StorageOption_TtlString nilflag (Funcs.mkStorageOption s fsync growth)) = Ttl.seconds_to_ttl s.
Proof. intros. unfold Funcs.StorageOption_TtlString. cbn [Funcs.StorageOption_TtlSeconds]. apply tie_SecondsToTTL_proof. Qed.

(* ---------- weed/storage/types/offset_4bytes.go: ToOffset / ToActualOffset / IsZero ---------- *)

(* the models keep the stored offset as the number off/8 (VolumeCrash.entry_of: e_off := off / 8,
   EcIndex: 4 big-endian bytes of it); the Go code splits it into four bytes and reassembles it *)
Definition offset_units (o : Funcs.Offset) : Z :=
  Funcs.Offset_b0 o + 256 * Funcs.Offset_b1 o + 65536 * Funcs.Offset_b2 o + 16777216 * Funcs.Offset_b3 o.

Lemma tie_ToOffset_proof : forall off, 0 <= off < 34359738368 (* MaxPossibleVolumeSize = 2^32 * 8 *) ->
  offset_units (Funcs.ToOffset off) = off / 8 /\
  0 <= Funcs.Offset_b0 (Funcs.ToOffset off) < 256 /\ 0 <= Funcs.Offset_b1 (Funcs.ToOffset off) < 256 /\
  0 <= Funcs.Offset_b2 (Funcs.ToOffset off) < 256 /\ 0 <= Funcs.Offset_b3 (Funcs.ToOffset off) < 256.
Proof.
  intros off H. unfold offset_units, Funcs.ToOffset, Funcs.Uint32ToOffset.
  cbn [Funcs.Offset_b0 Funcs.Offset_b1 Funcs.Offset_b2 Funcs.Offset_b3
       Funcs.OffsetLower_b0 Funcs.OffsetLower_b1 Funcs.OffsetLower_b2 Funcs.OffsetLower_b3].
  rewrite Z.quot_div_nonneg by lia. rewrite (wrap_u32_id (off / 8)) by lia.
  rewrite !Z.shiftr_div_pow2 by lia. rewrite !wrap_u8_mod.
  change (2 ^ 8) with 256. change (2 ^ 16) with 65536. change (2 ^ 24) with 16777216.
  lia.
Qed.

Lemma tie_Offset_ToActualOffset_proof : forall b3 b2 b1 b0,
  0 <= b0 < 256 -> 0 <= b1 < 256 -> 0 <= b2 < 256 -> 0 <= b3 < 256 ->
  Funcs.Offset_ToActualOffset (Funcs.mkOffset b3 b2 b1 b0) = 8 * offset_units (Funcs.mkOffset b3 b2 b1 b0).
Proof.
  intros b3 b2 b1 b0 H0 H1 H2 H3. unfold Funcs.Offset_ToActualOffset, offset_units.
  cbn [Funcs.Offset_b0 Funcs.Offset_b1 Funcs.Offset_b2 Funcs.Offset_b3].
  rewrite !Z.shiftl_mul_pow2 by lia.
  change (2 ^ 8) with 256. change (2 ^ 16) with 65536. change (2 ^ 24) with 16777216.
  unwrap. lia.
Qed.

(* write then read: the volume code's ToOffset / ToActualOffset pair is off -> 8 * (off / 8) *)
Lemma tie_Offset_roundtrip_proof : forall off, 0 <= off < 34359738368 ->
  Funcs.Offset_ToActualOffset (Funcs.ToOffset off) = 8 * (off / 8).
Proof.
  intros off H. destruct (tie_ToOffset_proof off H) as (E & H0 & H1 & H2 & H3).
  destruct (Funcs.ToOffset off) as [b3 b2 b1 b0] eqn:Eo.
  cbn [Funcs.Offset_b0 Funcs.Offset_b1 Funcs.Offset_b2 Funcs.Offset_b3] in H0, H1, H2, H3.
  rewrite tie_Offset_ToActualOffset_proof by assumption. rewrite E. reflexivity.
Qed.

Lemma tie_Offset_IsZero_proof : forall off, 0 <= off < 34359738368 ->
  Funcs.Offset_IsZero (Funcs.ToOffset off) = (off / 8 =? 0).
Proof.
  intros off H. destruct (tie_ToOffset_proof off H) as (E & H0 & H1 & H2 & H3).
  destruct (Funcs.ToOffset off) as [b3 b2 b1 b0] eqn:Eo. unfold offset_units in E.
  unfold Funcs.Offset_IsZero.
  cbn [Funcs.Offset_b0 Funcs.Offset_b1 Funcs.Offset_b2 Funcs.Offset_b3] in *.
  rewrite <- E.
  destruct (Z.eqb_spec b0 0), (Z.eqb_spec b1 0), (Z.eqb_spec b2 0), (Z.eqb_spec b3 0); cbn [andb];
    symmetry; try (apply Z.eqb_neq; lia); apply Z.eqb_eq; lia.
Qed.

(* ---------- weed/storage/erasure_coding/ec_volume_info.go: ShardBits (uint32) ---------- *)

Lemma of_N_lor : forall a b : N, Z.of_N (N.lor a b) = Z.lor (Z.of_N a) (Z.of_N b).
Proof. destruct a, b; reflexivity. Qed.
Lemma of_N_ldiff : forall a b : N, Z.of_N (N.ldiff a b) = Z.ldiff (Z.of_N a) (Z.of_N b).
Proof. destruct a, b; reflexivity. Qed.
Lemma of_N_shl1 : forall i : N, Z.of_N (N.shiftl 1 i) = 2 ^ Z.of_N i.
Proof. intros. rewrite N.shiftl_mul_pow2, N.mul_1_l, N2Z.inj_pow. reflexivity. Qed.

Lemma shl1_u32 : forall i : N, (i < 32)%N -> wrap_u 32 (Z.shiftl 1 (Z.of_N i)) = Z.of_N (N.shiftl 1 i).
Proof.
  intros i Hi. rewrite of_N_shl1.
  rewrite Z.shiftl_mul_pow2 by lia. rewrite Z.mul_1_l.
  apply wrap_u32_id. split; [apply Z.pow_nonneg; lia|].
  change 4294967296 with (2 ^ 32). apply Z.pow_lt_mono_r; lia.
Qed.

(* ids below 32 (shard ids are < TotalShardsCount = 14); for id >= 32 the Go shift gives 0 where
   the model's unbounded 2^id would set a bit outside the uint32 *)
Lemma tie_ShardBits_AddShardId_proof : forall b i : N, (i < 32)%N ->
  Funcs.ShardBits_AddShardId (Z.of_N b) (Z.of_N i) = Z.of_N (EcBalance.add_id b i).
Proof.
  intros b i Hi. unfold Funcs.ShardBits_AddShardId, EcBalance.add_id.
  rewrite shl1_u32 by assumption. rewrite of_N_lor. reflexivity.
Qed.

Lemma tie_ShardBits_RemoveShardId_proof : forall b i : N, (i < 32)%N ->
  Funcs.ShardBits_RemoveShardId (Z.of_N b) (Z.of_N i) = Z.of_N (EcBalance.remove_id b i).
Proof.
  intros b i Hi. unfold Funcs.ShardBits_RemoveShardId, EcBalance.remove_id.
  rewrite shl1_u32 by assumption. rewrite of_N_ldiff. reflexivity.
Qed.

Lemma land_pow2_testbit : forall a i, 0 <= i -> Z.land a (2 ^ i) = if Z.testbit a i then 2 ^ i else 0.
Proof.
  intros a i Hi. apply Z.bits_inj'. intros n Hn. rewrite Z.land_spec, Z.pow2_bits_eqb by lia.
  destruct (Z.eqb_spec i n) as [->|Hne].
  - destruct (Z.testbit a n); [rewrite Z.pow2_bits_true by lia | rewrite Z.bits_0]; reflexivity.
  - rewrite andb_false_r. destruct (Z.testbit a i); [rewrite Z.pow2_bits_false by lia | rewrite Z.bits_0]; reflexivity.
Qed.

Lemma tie_ShardBits_HasShardId_proof : forall b i : N, (i < 32)%N ->
  Funcs.ShardBits_HasShardId (Z.of_N b) (Z.of_N i) = EcBalance.has b i.
Proof.
  intros b i Hi. unfold Funcs.ShardBits_HasShardId, EcBalance.has.
  rewrite shl1_u32 by assumption. rewrite of_N_shl1.
  rewrite land_pow2_testbit by lia. rewrite <- N2Z.inj_testbit.
  assert (0 < 2 ^ Z.of_N i) by (apply Z.pow_pos_nonneg; lia).
  destruct (Z.testbit (Z.of_N b) (Z.of_N i)); [apply Z.gtb_lt; assumption | reflexivity].
Qed.

(* Minus / Plus: the model (TopoCount.sync_ec) writes N.ldiff / N.lor directly *)
Lemma tie_ShardBits_Minus_proof : forall a b : N,
  Funcs.ShardBits_Minus (Z.of_N a) (Z.of_N b) = Z.of_N (N.ldiff a b).
Proof. intros. unfold Funcs.ShardBits_Minus. rewrite of_N_ldiff. reflexivity. Qed.

Lemma tie_ShardBits_Plus_proof : forall a b : N,
  Funcs.ShardBits_Plus (Z.of_N a) (Z.of_N b) = Z.of_N (N.lor a b).
Proof. intros. unfold Funcs.ShardBits_Plus. rewrite of_N_lor. reflexivity. Qed.

(* ShardIdCount: `for count = 0; b > 0; count++ { b &= b - 1 }` clears the lowest set bit per round
   (Kernighan); the model is the structural bit count TopoCount.popcount *)
Lemma popcount_Ndouble : forall x : N, TopoCount.popcount (Pos.Ndouble x) = TopoCount.popcount x.
Proof. destruct x; reflexivity. Qed.

Lemma popcount_clear_lowest : forall p : positive,
  TopoCount.popcount (N.land (Npos p) (N.pred (Npos p))) = TopoCount.popcount_pos p - 1.
Proof.
  induction p as [q IH|q IH|].
  - (* q~1 & q~0 = (q & q)~0 *)
    change (N.pred (Npos q~1)) with (Npos q~0).
    change (N.land (Npos q~1) (Npos q~0)) with (Pos.Ndouble (N.land (Npos q) (Npos q))).
    rewrite N.land_diag, popcount_Ndouble. cbn [TopoCount.popcount TopoCount.popcount_pos]. lia.
  - change (N.pred (Npos q~0)) with (Npos (Pos.pred_double q)).
    destruct (Pos.succ_pred_or q) as [->|E]; [reflexivity|].
    remember (Pos.pred q) as r eqn:Er. clear Er. subst q.
    rewrite Pos.pred_double_succ.
    change (N.land (Npos (Pos.succ r)~0) (Npos r~1)) with (Pos.Ndouble (N.land (Npos (Pos.succ r)) (Npos r))).
    rewrite popcount_Ndouble.
    assert (Ep : N.pred (Npos (Pos.succ r)) = Npos r) by (rewrite <- N.pos_pred_spec; apply Pos.pred_N_succ).
    rewrite Ep in IH. rewrite IH. cbn [TopoCount.popcount_pos]. reflexivity.
  - reflexivity.
Qed.

Lemma popcount_nonneg : forall n, 0 <= TopoCount.popcount n.
Proof. destruct n as [|p]; [cbn; lia|]. cbn. induction p; cbn [TopoCount.popcount_pos]; lia. Qed.

Lemma popcount_pos_le : forall p, TopoCount.popcount_pos p <= Zpos p.
Proof. induction p; cbn [TopoCount.popcount_pos]; lia. Qed.

Lemma land_pred_lt32 : forall n : N, (0 < n < 4294967296)%N -> (N.land n (N.pred n) < 4294967296)%N.
Proof.
  intros n Hn. destruct (N.eq_dec (N.land n (N.pred n)) 0) as [->|Hz]; [lia|].
  change 4294967296%N with (2 ^ 32)%N in *.
  apply N.log2_lt_pow2; [lia|].
  pose proof (N.log2_land n (N.pred n)) as Hl.
  assert (N.log2 n < 32)%N by (apply N.log2_lt_pow2; lia). lia.
Qed.

Lemma ShardIdCount_loop_tie : forall (fuel : nat) (n : N) (count : Z),
  (n < 4294967296)%N -> 0 <= count -> count + TopoCount.popcount n < 4611686018427387904 ->
  (Z.to_nat (TopoCount.popcount n) + 1 <= fuel)%nat ->
  Funcs.ShardBits_ShardIdCount_loop1 fuel (Z.of_N n) count = Some (count + TopoCount.popcount n).
Proof.
  induction fuel as [|f IH]; intros n count Hn Hc Hsum Hf; [lia|].
  cbn [Funcs.ShardBits_ShardIdCount_loop1].
  destruct n as [|p].
  - cbn. rewrite Z.add_0_r. reflexivity.
  - replace (Z.of_N (Npos p) >? 0) with true by (symmetry; apply Z.gtb_lt; lia).
    rewrite (wrap_u32_id (Z.of_N (Npos p) - 1)) by lia.
    replace (Z.of_N (Npos p) - 1) with (Z.of_N (N.pred (Npos p))) by lia.
    replace (Z.land (Z.of_N (Npos p)) (Z.of_N (N.pred (Npos p)))) with (Z.of_N (N.land (Npos p) (N.pred (Npos p))))
      by (destruct (N.pred (Npos p)); reflexivity).
    pose proof (popcount_clear_lowest p) as Hk.
    pose proof (popcount_nonneg (N.land (Npos p) (N.pred (Npos p)))) as Hnn.
    cbn [TopoCount.popcount] in Hsum, Hf.
    rewrite (wrap_s64_id (count + 1)) by lia.
    cbn [TopoCount.popcount].
    rewrite IH; [rewrite Hk; f_equal; lia | apply land_pred_lt32; lia | lia | lia | lia].
Qed.

Lemma tie_ShardBits_ShardIdCount_proof : forall (n : N) (fuel : nat),
  (n < 4294967296)%N -> (Z.to_nat (TopoCount.popcount n) + 1 <= fuel)%nat ->
  Funcs.ShardBits_ShardIdCount fuel (Z.of_N n) = Some (TopoCount.popcount n).
Proof.
  intros n fuel Hn Hf. unfold Funcs.ShardBits_ShardIdCount.
  rewrite ShardIdCount_loop_tie; try lia.
  - reflexivity.
  - destruct n as [|p]; cbn [TopoCount.popcount]; [lia|]. pose proof (popcount_pos_le p). lia.
Qed.

(* 33 rounds always suffice for a uint32 *)
Lemma popcount_u32 : forall n : N, (n < 4294967296)%N -> TopoCount.popcount n <= 32.
Proof.
  intros n Hn. destruct n as [|p]; [cbn; lia|]. cbn [TopoCount.popcount].
  assert (H : forall q, TopoCount.popcount_pos q <= Z.of_N (N.size (Npos q))).
  { induction q; cbn [TopoCount.popcount_pos N.size Pos.size] in *; lia. }
  specialize (H p). assert (N.size (Npos p) <= 32)%N; [|lia].
  rewrite N.size_log2 by lia. assert (N.log2 (Npos p) < 32)%N; [|lia].
  apply N.log2_lt_pow2; [lia|]. exact Hn.
Qed.
