(* Translator tie for function bodies: proofs that the definitions GENERATED from the Go
   source text (gen/Funcs.v, harness/cmd/funcgen, regenerated on every run) equal the
   hand-written model functions the property theorems are about.  Statements are
   re-exported one by one in props/FuncsTie.v.  Hypotheses are the ranges of the Go
   parameter types, cut down (and said so) where the fixed-width code provably leaves
   the model's unbounded arithmetic. *)
From Coq Require Import ZArith NArith Lia List Bool ZifyBool.
From SW Require Import base.GoInt.
From SW Require gen.Funcs.
From SW Require gen.Funcs5.
From SW Require model.Needle model.EcIndex model.EC model.Ttl model.Codecs model.VolPlanner model.TopoPlace model.EcBalance model.TopoCount model.NeedleMap model.Chunks model.S3Paths.
Import ListNotations.
Local Open Scope Z_scope.

Ltac Zify.zify_post_hook ::= Z.to_euclidean_division_equations.

(* rewrite away every wrap whose argument is provably inside the type's range *)
Ltac unwrap1 :=
  match goal with
  | |- context [wrap_s 64 ?x] => rewrite (wrap_s64_id x) by lia
  | |- context [wrap_s 32 ?x] => rewrite (wrap_s32_id x) by lia
  | |- context [wrap_u 32 ?x] => rewrite (wrap_u32_id x) by lia
  | |- context [wrap_u 8 ?x] => rewrite (wrap_u8_id x) by lia
  | |- context [wrap_u 64 ?x] => rewrite (wrap_u64_id x) by lia
  | |- context [wrap_s 16 ?x] => rewrite (wrap_s16_id x) by lia
  | |- context [wrap_u 16 ?x] => rewrite (wrap_u16_id x) by lia
  | |- context [wrap_s 8 ?x] => rewrite (wrap_s8_id x) by lia
  end.
Ltac unwrap := repeat unwrap1.

(* ---------- weed/storage/needle: PaddingLength, NeedleBodyLength, GetActualSize ---------- *)

(* int32 arithmetic: NeedleHeaderSize + size + NeedleChecksumSize + TimestampSize must not pass
   MaxInt32, i.e. size <= 2^31-1-28.  Above that the Go function wraps (see padding_wraps). *)
Definition size_max : N := 2147483619.

Lemma tie_PaddingLength_proof : forall size v : N,
  (size <= size_max)%N -> (v < 256)%N ->
  Funcs.PaddingLength (Z.of_N size) (Z.of_N v) = Z.of_N (Needle.padding_length size v).
Proof.
  intros size v Hs Hv. unfold size_max in Hs.
  unfold Funcs.PaddingLength, Needle.padding_length, Needle.ts_size,
    Needle.NeedlePaddingSize, Needle.NeedleHeaderSize, Needle.NeedleChecksumSize, Needle.TimestampSize.
  replace (Z.of_N v =? 3) with (v =? 3)%N by (destruct (N.eqb_spec v 3), (Z.eqb_spec (Z.of_N v) 3); lia).
  destruct (v =? 3)%N; unwrap; lia.
Qed.

(* the part of the int32 range left out above is real: the Go code returns 13 where the
   padding of a record is 1..8 (a body of 2 GiB - 1 is not reachable through the write path,
   whose Size is the int32 length of an in-memory buffer plus a few bytes) *)
Example padding_wraps : Funcs.PaddingLength 2147483647 3 = 13.
Proof. vm_compute. reflexivity. Qed.

Lemma padding_small : forall size v, (1 <= Needle.padding_length size v <= 8)%N.
Proof.
  intros. unfold Needle.padding_length, Needle.NeedlePaddingSize. lia.
Qed.

Lemma tie_NeedleBodyLength_proof : forall size v : N,
  (size <= size_max)%N -> (v < 256)%N ->
  Funcs.NeedleBodyLength (Z.of_N size) (Z.of_N v) = Z.of_N (Needle.body_length size v).
Proof.
  intros size v Hs Hv. unfold Funcs.NeedleBodyLength, Needle.body_length.
  rewrite tie_PaddingLength_proof by assumption.
  pose proof (padding_small size v) as Hp. unfold size_max in Hs.
  unfold Needle.ts_size, Needle.NeedleChecksumSize, Needle.TimestampSize.
  replace (Z.of_N v =? 3) with (v =? 3)%N by (destruct (N.eqb_spec v 3), (Z.eqb_spec (Z.of_N v) 3); lia).
  destruct (v =? 3)%N; unwrap; lia.
Qed.

Lemma tie_GetActualSize_proof : forall size v : N,
  (size <= size_max)%N -> (v < 256)%N ->
  Funcs.GetActualSize (Z.of_N size) (Z.of_N v) = Z.of_N (Needle.actual_size size v).
Proof.
  intros size v Hs Hv. unfold Funcs.GetActualSize, Needle.actual_size.
  rewrite tie_NeedleBodyLength_proof by assumption.
  pose proof (padding_small size v) as Hp. unfold size_max in Hs.
  unfold Needle.body_length, Needle.ts_size, Needle.NeedleHeaderSize, Needle.NeedleChecksumSize, Needle.TimestampSize.
  destruct (v =? 3)%N; unwrap; lia.
Qed.

(* ---------- weed/storage/types: Size.IsDeleted, Size.IsValid (no range needed) ---------- *)

Lemma tie_Size_IsDeleted_proof : forall s : Z, Funcs.Size_IsDeleted s = EcIndex.size_is_deleted s.
Proof.
  intros. unfold Funcs.Size_IsDeleted, EcIndex.size_is_deleted, EcIndex.tombstone.
  rewrite ?Z.gtb_ltb, ?Z.geb_leb. lia.
Qed.

Lemma tie_Size_IsValid_proof : forall s : Z, Funcs.Size_IsValid s = EcIndex.size_is_valid s.
Proof.
  intros. unfold Funcs.Size_IsValid, EcIndex.size_is_valid, EcIndex.tombstone.
  rewrite ?Z.gtb_ltb, ?Z.geb_leb. lia.
Qed.

(* ---------- weed/storage/needle/volume_ttl.go ---------- *)

Definition ttl_rec (c u : N) : Funcs.TTL := Funcs.mkTTL (Z.of_N c) (Z.of_N u).

(* Count and Unit are bytes; uint32 arithmetic never wraps for a byte count *)
Lemma tie_TTL_Minutes_proof : forall c u : N, (c < 256)%N -> (u < 256)%N ->
  Funcs.TTL_Minutes (ttl_rec c u) = Z.of_N (Ttl.minutes {| Ttl.t_count := c; Ttl.t_unit := u |}).
Proof.
  intros c u Hc Hu. unfold Funcs.TTL_Minutes, ttl_rec, Ttl.minutes. cbn [Funcs.TTL_Unit Funcs.TTL_Count Ttl.t_unit Ttl.t_count].
  assert (Hcase : (u = 0 \/ u = 1 \/ u = 2 \/ u = 3 \/ u = 4 \/ u = 5 \/ u = 6 \/ 7 <= u)%N) by lia.
  destruct Hcase as [E|[E|[E|[E|[E|[E|[E|E]]]]]]]; try (subst u; cbn; unwrap; lia).
  repeat match goal with |- context [Z.of_N u =? ?k] =>
    replace (Z.of_N u =? k) with false by (symmetry; apply Z.eqb_neq; lia) end.
  destruct u as [|p]; [lia|].
  do 3 (destruct p as [p|p|]; try lia; try reflexivity).
Qed.

(* ToUint32: t == nil || t.Count == 0 -> 0, else Count<<8 + Unit *)
Lemma tie_TTL_ToUint32_proof : forall c u : N, (c < 256)%N -> (u < 256)%N ->
  Funcs.TTL_ToUint32 false (ttl_rec c u) = Z.of_N (Ttl.to_uint32 {| Ttl.t_count := c; Ttl.t_unit := u |}).
Proof.
  intros c u Hc Hu. unfold Funcs.TTL_ToUint32, ttl_rec, Ttl.to_uint32.
  cbn [Funcs.TTL_Unit Funcs.TTL_Count Ttl.t_unit Ttl.t_count orb].
  replace (Z.of_N c =? 0) with (c =? 0)%N by (destruct (N.eqb_spec c 0), (Z.eqb_spec (Z.of_N c) 0); lia).
  destruct (c =? 0)%N; [reflexivity|].
  rewrite Z.shiftl_mul_pow2 by lia. change (2 ^ 8) with 256. unwrap. lia.
Qed.
Lemma tie_TTL_ToUint32_nil_proof : forall t, Funcs.TTL_ToUint32 true t = 0.
Proof. reflexivity. Qed.

Lemma tie_toStoredByte_proof : forall a : Ascii.ascii,
  Funcs.toStoredByte (Z.of_N (Ascii.N_of_ascii a)) = Z.of_N (Ttl.to_stored_byte a).
Proof. intros [[] [] [] [] [] [] [] []]; vm_compute; reflexivity. Qed.

(* SecondsToTTL returns "" or Sprintf("%d<c>", q): the generated function returns (0,0) or (q, code of c) *)
Definition render_fmt (r : Z * Z) : String.string :=
  if snd r =? 0 then String.EmptyString else Ttl.fmt_ttl (fst r) (Ascii.ascii_of_N (Z.to_N (snd r))).

Lemma tie_SecondsToTTL_proof : forall s : Z, render_fmt (Funcs.SecondsToTTL s) = Ttl.seconds_to_ttl s.
Proof.
  intros s. unfold Funcs.SecondsToTTL, Ttl.seconds_to_ttl,
    Ttl.SEC_YEAR, Ttl.SEC_MONTH, Ttl.SEC_WEEK, Ttl.SEC_DAY, Ttl.SEC_HOUR, Ttl.SEC_MINUTE.
  repeat match goal with |- context [if ?b then _ else _] =>
    match b with context [s] => destruct b; [reflexivity|] end end.
  reflexivity.
Qed.

(* ---------- weed/storage/super_block/replica_placement.go ---------- *)

Definition rp_rec (dc rack same : N) : Funcs.ReplicaPlacement :=
  Funcs.mkReplicaPlacement (Z.of_N same) (Z.of_N rack) (Z.of_N dc).

(* the counts are Go ints; the model's counts are naturals.  Bound 2^56: no int64 overflow in
   dc*100 + rack*10 + same (valid placements have counts 0..2) *)
Lemma tie_ReplicaPlacement_Byte_proof : forall dc rack same : N,
  (dc < 2 ^ 56)%N -> (rack < 2 ^ 56)%N -> (same < 2 ^ 56)%N ->
  Funcs.ReplicaPlacement_Byte false (rp_rec dc rack same) = Z.of_N (Codecs.rp_byte (dc, rack, same)).
Proof.
  intros dc rack same H1 H2 H3. change (2 ^ 56)%N with 72057594037927936%N in *.
  unfold Funcs.ReplicaPlacement_Byte, rp_rec, Codecs.rp_byte.
  cbn [Funcs.ReplicaPlacement_DiffDataCenterCount Funcs.ReplicaPlacement_DiffRackCount Funcs.ReplicaPlacement_SameRackCount].
  unwrap. rewrite wrap_u8_mod. lia.
Qed.
Lemma tie_ReplicaPlacement_Byte_nil_proof : forall r, Funcs.ReplicaPlacement_Byte true r = 0.
Proof. reflexivity. Qed.

Lemma tie_ReplicaPlacement_GetCopyCount_proof : forall (nilflag : bool) (dc rack same : nat),
  Z.of_nat dc < 2 ^ 61 -> Z.of_nat rack < 2 ^ 61 -> Z.of_nat same < 2 ^ 61 ->
  Funcs.ReplicaPlacement_GetCopyCount nilflag (rp_rec (N.of_nat dc) (N.of_nat rack) (N.of_nat same)) =
  Z.of_nat (VolPlanner.copy_count {| VolPlanner.rp_dc := dc; VolPlanner.rp_rack := rack; VolPlanner.rp_same := same |}).
Proof.
  intros nilflag dc rack same H1 H2 H3. change (2 ^ 61) with 2305843009213693952 in *.
  unfold Funcs.ReplicaPlacement_GetCopyCount, rp_rec, VolPlanner.copy_count.
  cbn [Funcs.ReplicaPlacement_DiffDataCenterCount Funcs.ReplicaPlacement_DiffRackCount Funcs.ReplicaPlacement_SameRackCount
       VolPlanner.rp_dc VolPlanner.rp_rack VolPlanner.rp_same].
  unwrap. lia.
Qed.

(* ---------- weed/storage/erasure_coding/ec_locate.go ---------- *)

(* MaxInt64.  Offsets, sizes and block lengths are non-negative int64 values in the code;
   the model computes in unbounded Z, so the ties carry the no-overflow bounds explicitly. *)
Definition max63 : Z := 9223372036854775807.

Definition conv_iv (iv : EC.interval) : Funcs.Interval :=
  Funcs.mkInterval (EC.i_block iv) (EC.i_inner iv) (EC.i_size iv) (EC.i_large iv) (EC.i_rows iv).

Lemma quot_bounds_pos : forall a b, 0 <= a -> 0 < b -> 0 <= Z.quot a b <= a.
Proof.
  intros a b Ha Hb. rewrite Z.quot_div_nonneg by lia. split.
  - apply Z.div_pos; lia.
  - apply Z.div_le_upper_bound; nia.
Qed.

Lemma tie_locateOffsetWithinBlocks_proof : forall bl off,
  0 < bl <= max63 -> 0 <= off <= max63 ->
  Funcs.locateOffsetWithinBlocks bl off = Some (EC.locate_within bl off).
Proof.
  intros bl off Hb Ho. unfold max63 in *. unfold Funcs.locateOffsetWithinBlocks, EC.locate_within.
  destruct (Z.eqb_spec bl 0) as [|_]; [lia|]. cbn [negb].
  pose proof (quot_bounds_pos off bl) as Hq.
  rewrite (wrap_s64_id (Z.quot off bl)) by lia. reflexivity.
Qed.

Lemma nrows_bounds : forall L D, 0 < L -> 0 <= D ->
  0 <= Z.quot (D - 1) (L * 10) /\ Z.quot (D - 1) (L * 10) * (L * 10) <= D.
Proof.
  intros L D HL HD. destruct (Z.eq_dec D 0) as [->|Hn].
  - replace (0 - 1) with (- (1)) by lia. rewrite Z.quot_opp_l by lia. rewrite Z.quot_small by lia. lia.
  - rewrite Z.quot_div_nonneg by lia. split.
    + apply Z.div_pos; lia.
    + pose proof (Z.mul_div_le (D - 1) (L * 10)). lia.
Qed.

Lemma tie_locateOffset_proof : forall L S D off,
  0 < L -> L * 10 <= max63 -> 0 < S <= max63 -> 0 <= D <= max63 -> 0 <= off <= max63 ->
  Funcs.locateOffset L S D off = Some (EC.locate_offset L S D off).
Proof.
  intros L S D off HL HL10 HS HD Hoff. unfold max63 in *.
  unfold Funcs.locateOffset, EC.locate_offset, EC.n_large_rows.
  destruct (nrows_bounds L D) as [Hn0 Hn1]; try lia.
  rewrite !(wrap_s64_id (L * 10)) by lia.
  rewrite (wrap_s64_id (D - 1)) by lia.
  set (n := Z.quot (D - 1) (L * 10)) in *.
  assert (Hn2 : n <= D) by nia.
  rewrite (wrap_s64_id n) by lia.
  destruct (Z.eqb_spec (L * 10) 0) as [|_]; [lia|]. cbn [negb].
  rewrite !(wrap_s64_id (n * (L * 10))) by lia.
  destruct (off <? n * (L * 10)) eqn:E.
  - rewrite tie_locateOffsetWithinBlocks_proof by (unfold max63; lia). reflexivity.
  - apply Z.ltb_ge in E. rewrite (wrap_s64_id (off - n * (L * 10))) by lia.
    rewrite tie_locateOffsetWithinBlocks_proof by (unfold max63; lia). reflexivity.
Qed.

Lemma tie_Interval_ToShardIdAndOffset_proof : forall (iv : EC.interval) L S,
  0 <= EC.i_block iv <= max63 -> 0 <= EC.i_inner iv -> 0 <= EC.i_rows iv -> 0 <= L -> 0 <= S ->
  (if EC.i_large iv then EC.i_inner iv + Z.quot (EC.i_block iv) 10 * L
   else EC.i_inner iv + (EC.i_rows iv * L + Z.quot (EC.i_block iv) 10 * S)) <= max63 ->
  Funcs.Interval_ToShardIdAndOffset (conv_iv iv) L S = EC.to_shard_offset L S iv.
Proof.
  intros [b inn sz lg rows] L S Hb Hi Hr HL HS H. unfold max63 in *.
  unfold Funcs.Interval_ToShardIdAndOffset, EC.to_shard_offset, conv_iv.
  cbn [EC.i_block EC.i_inner EC.i_size EC.i_large EC.i_rows Funcs.Interval_BlockIndex Funcs.Interval_InnerBlockOffset
       Funcs.Interval_Size Funcs.Interval_IsLargeBlock Funcs.Interval_LargeBlockRowsCount] in *.
  assert (Hq : 0 <= Z.quot b 10 <= b) by (apply quot_bounds_pos; lia).
  assert (Hr10 : 0 <= Z.rem b 10 < 10) by (apply Z.rem_bound_pos; lia).
  rewrite (wrap_u8_id (Z.rem b 10)) by lia.
  destruct lg.
  - assert (0 <= Z.quot b 10 * L) by nia. unwrap. reflexivity.
  - assert (0 <= Z.quot b 10 * S) by nia. assert (0 <= rows * L) by nia. unwrap. reflexivity.
Qed.

(* the `for size > 0` loop: the generated loop carries the result slice as an accumulator *)
Lemma locate_loop_tie : forall L S D off n,
  0 < L <= max63 -> 0 < S <= max63 -> 0 <= n -> n * 10 <= max63 ->
  forall (fuel mf : nat) (sz : Z) (acc : list Funcs.Interval) (bi : Z) (il : bool) (inn : Z),
  (Z.to_nat sz + 1 <= fuel)%nat -> (Z.to_nat sz <= mf)%nat ->
  0 <= sz < 2147483648 -> 0 <= bi -> bi + sz <= max63 -> 0 <= inn < (if il then L else S) ->
  Funcs.LocateData_loop1 fuel L S D off sz acc bi il inn n =
  Some (acc ++ map conv_iv (EC.locate_loop mf L S n bi il inn sz)).
Proof.
  intros L S D off n HL HS Hn Hn10. unfold max63 in *.
  induction fuel as [|f IH]; intros mf sz acc bi il inn Hf Hmf Hsz Hbi Hbs Hinn; [lia|].
  cbn [Funcs.LocateData_loop1].
  destruct (sz >? 0) eqn:Epos.
  2:{ assert (sz = 0) by lia. subst sz. destruct mf; cbn [EC.locate_loop]; [|cbn]; rewrite app_nil_r; reflexivity. }
  assert (Hpos : 0 < sz) by lia.
  destruct mf as [|mf']; [lia|]. cbn [EC.locate_loop]. rewrite Epos.
  cbn [Funcs.Interval_BlockIndex Funcs.Interval_InnerBlockOffset Funcs.Interval_Size Funcs.Interval_IsLargeBlock
       Funcs.Interval_LargeBlockRowsCount].
  rewrite (wrap_s64_id (L - inn)) by (destruct il; lia).
  assert (Ebr : (if negb il then wrap_s 64 (S - inn) else L - inn) = (if il then L - inn else S - inn)).
  { destruct il; cbn [negb]; [reflexivity|]. rewrite wrap_s64_id by lia. reflexivity. }
  rewrite Ebr. clear Ebr.
  set (br := if il then L - inn else S - inn).
  assert (Hbr : 1 <= br <= max63) by (unfold br, max63; destruct il; lia). unfold max63 in Hbr.
  destruct (sz <=? br) eqn:Ele.
  - cbn [map]. unfold conv_iv. cbn [EC.i_block EC.i_inner EC.i_size EC.i_large EC.i_rows]. reflexivity.
  - apply Z.leb_gt in Ele.
    rewrite (wrap_s32_id br) by lia. rewrite (wrap_s32_id (sz - br)) by lia.
    rewrite (wrap_s64_id (bi + 1)) by lia. rewrite (wrap_s64_id (n * 10)) by lia.
    cbn [map]. 
    destruct (il && (bi + 1 =? n * 10)) eqn:Ec.
    + rewrite (IH mf' (sz - br) _ 0 false 0) by (try lia).
      rewrite <- app_assoc. reflexivity.
    + rewrite (IH mf' (sz - br) _ (bi + 1) il 0) by (try lia; destruct il; lia).
      rewrite <- app_assoc. reflexivity.
Qed.

Lemma tie_LocateData_proof : forall L S D off size (fuel : nat),
  0 < L -> L * 10 <= max63 -> 0 < S <= max63 -> 0 <= D <= max63 ->
  0 <= off -> 0 <= size < 2147483648 -> off + size <= max63 ->
  (Z.to_nat size + 1 <= fuel)%nat ->
  Funcs.LocateData fuel L S D off size = Some (map conv_iv (EC.locate_data L S D off size)).
Proof.
  intros L S D off size fuel HL HL10 HS HD Hoff Hsz Hsum Hfuel. unfold max63 in *.
  unfold Funcs.LocateData, EC.locate_data.
  rewrite tie_locateOffset_proof by (unfold max63; lia).
  destruct (nrows_bounds L D) as [Hn0 Hn1]; try lia.
  assert (Hlo : exists b il inn, EC.locate_offset L S D off = (b, il, inn) /\ 0 <= b <= off /\ 0 <= inn < (if il then L else S)).
  { unfold EC.locate_offset, EC.n_large_rows, EC.locate_within.
    set (n := Z.quot (D - 1) (L * 10)) in *.
    destruct (off <? n * (L * 10)) eqn:E.
    - exists (Z.quot off L), true, (Z.rem off L). split; [reflexivity|].
      split; [apply quot_bounds_pos; lia | apply Z.rem_bound_pos; lia].
    - apply Z.ltb_ge in E. exists (Z.quot (off - n * (L * 10)) S), false, (Z.rem (off - n * (L * 10)) S).
      split; [reflexivity|]. pose proof (quot_bounds_pos (off - n * (L * 10)) S).
      assert (0 <= n * (L * 10)) by (apply Z.mul_nonneg_nonneg; lia).
      split; [lia | apply Z.rem_bound_pos; lia]. }
  destruct Hlo as (b & il & inn & Elo & Hb & Hinn). rewrite Elo.
  rewrite !(wrap_s64_id (L * 10)) by lia.
  destruct (Z.eqb_spec (L * 10) 0) as [|_]; [lia|]. cbn [negb].
  rewrite (wrap_s64_id (D - 1)) by lia.
  unfold EC.n_large_rows.
  set (n := Z.quot (D - 1) (L * 10)) in *.
  assert (Hn2 : n * 10 <= D).
  { assert (n * 10 <= n * (L * 10)) by (apply Z.mul_le_mono_nonneg_l; lia). lia. }
  rewrite (wrap_s64_id n) by lia.
  rewrite (locate_loop_tie L S D off n) with (mf := Z.to_nat size); unfold max63; try lia.
  reflexivity.
Qed.

(* ---------- weed/storage/needle/crc.go: CRC.Value (uint32) ---------- *)

Lemma land_low_high : forall q r, 0 <= q < 2 ^ 17 -> Z.land q (Z.shiftl r 17) = 0.
Proof.
  intros q r Hq. apply Z.bits_inj'. intros n Hn. rewrite Z.land_spec, Z.bits_0.
  destruct (Z_lt_le_dec n 17).
  - rewrite Z.shiftl_spec_low by lia. apply andb_false_r.
  - rewrite <- (Z.mod_small q (2 ^ 17)) by lia. rewrite Z.mod_pow2_bits_high by lia. reflexivity.
Qed.

Lemma tie_CRC_Value_proof : forall c : N, (c < 4294967296)%N ->
  Funcs.CRC_Value (Z.of_N c) = Z.of_N (Needle.crc_value c).
Proof.
  intros c Hc. unfold Funcs.CRC_Value, Needle.crc_value.
  set (z := Z.of_N c). assert (Hz : 0 <= z < 4294967296) by (unfold z; lia).
  rewrite Z.shiftr_div_pow2 by lia. rewrite Z.shiftl_mul_pow2 by lia.
  change (2 ^ 15) with 32768. change (2 ^ 17) with 131072.
  rewrite (wrap_u32_mod (z * 131072)).
  assert (E : (z * 131072) mod 4294967296 = Z.shiftl (z mod 32768) 17).
  { rewrite Z.shiftl_mul_pow2 by lia. change (2 ^ 17) with 131072. lia. }
  rewrite E.
  assert (Hq : 0 <= z / 32768 < 2 ^ 17) by (change (2 ^ 17) with 131072; lia).
  rewrite <- Z.lxor_lor by (apply land_low_high; exact Hq).
  rewrite <- Z.add_nocarry_lxor by (apply land_low_high; exact Hq).
  rewrite Z.shiftl_mul_pow2 by lia. change (2 ^ 17) with 131072.
  rewrite wrap_u32_mod. unfold z. lia.
Qed.

(* ---------- weed/topology/disk.go: DiskUsageCounts.FreeSpace (int64) ---------- *)

Definition conv_counts (c : TopoPlace.counts) : Funcs.DiskUsageCounts :=
  Funcs.mkDiskUsageCounts (TopoPlace.volumeCount c) (TopoPlace.remoteVolumeCount c) (TopoPlace.activeVolumeCount c)
    (TopoPlace.ecShardCount c) (TopoPlace.maxVolumeCount c).

(* counters within +-2^61: no int64 overflow in max + remote - volume - ec/10 - 1 *)
Definition small61 (x : Z) : Prop := - 2305843009213693952 <= x <= 2305843009213693952.

Lemma tie_DiskUsageCounts_FreeSpace_proof : forall (nilflag : bool) (c : TopoPlace.counts),
  small61 (TopoPlace.volumeCount c) -> small61 (TopoPlace.remoteVolumeCount c) ->
  small61 (TopoPlace.ecShardCount c) -> small61 (TopoPlace.maxVolumeCount c) ->
  Funcs.DiskUsageCounts_FreeSpace nilflag (conv_counts c) = TopoPlace.free_space c.
Proof.
  intros nilflag [v r a e m] Hv Hr He Hm. unfold small61 in *.
  unfold Funcs.DiskUsageCounts_FreeSpace, TopoPlace.free_space, conv_counts, TopoPlace.DataShardsCount.
  cbn [TopoPlace.volumeCount TopoPlace.remoteVolumeCount TopoPlace.activeVolumeCount TopoPlace.ecShardCount TopoPlace.maxVolumeCount
       Funcs.DiskUsageCounts_volumeCount Funcs.DiskUsageCounts_remoteVolumeCount Funcs.DiskUsageCounts_activeVolumeCount
       Funcs.DiskUsageCounts_ecShardCount Funcs.DiskUsageCounts_maxVolumeCount] in *.
  rewrite Z.gtb_ltb. destruct (0 <? e); unwrap; reflexivity.
Qed.

(* ---------- weed/operation/assign_file_id.go: StorageOption.TtlString ---------- *)

Lemma tie_StorageOption_TtlString_proof : forall (nilflag fsync : bool) (s growth : Z),
  render_fmt (Funcs.StorageOption_TtlString nilflag (Funcs.mkStorageOption s fsync growth)) = Ttl.seconds_to_ttl s.
Proof. intros. unfold Funcs.StorageOption_TtlString. cbn [Funcs.StorageOption_TtlSeconds]. apply tie_SecondsToTTL_proof. Qed.

(* ---------- weed/storage/types/offset_4bytes.go: ToOffset / ToActualOffset / IsZero ---------- *)

(* the models keep the stored offset as the number off/8 (VolumeCrash.entry_of: e_off := off / 8,
   EcIndex: 4 big-endian bytes of it); the Go code splits it into four bytes and reassembles it *)
Definition offset_units (o : Funcs.Offset) : Z :=
  Funcs.Offset_b0 o + 256 * Funcs.Offset_b1 o + 65536 * Funcs.Offset_b2 o + 16777216 * Funcs.Offset_b3 o.

Lemma tie_ToOffset_proof : forall off, 0 <= off < 34359738368 (* MaxPossibleVolumeSize = 2^32 * 8 *) ->
  offset_units (Funcs.ToOffset off) = off / 8 /\
  0 <= Funcs.Offset_b0 (Funcs.ToOffset off) < 256 /\ 0 <= Funcs.Offset_b1 (Funcs.ToOffset off) < 256 /\
  0 <= Funcs.Offset_b2 (Funcs.ToOffset off) < 256 /\ 0 <= Funcs.Offset_b3 (Funcs.ToOffset off) < 256.
Proof.
  intros off H. unfold offset_units, Funcs.ToOffset, Funcs.Uint32ToOffset.
  cbn [Funcs.Offset_b0 Funcs.Offset_b1 Funcs.Offset_b2 Funcs.Offset_b3
       Funcs.OffsetLower_b0 Funcs.OffsetLower_b1 Funcs.OffsetLower_b2 Funcs.OffsetLower_b3].
  rewrite Z.quot_div_nonneg by lia. rewrite (wrap_u32_id (off / 8)) by lia.
  rewrite !Z.shiftr_div_pow2 by lia. rewrite !wrap_u8_mod.
  change (2 ^ 8) with 256. change (2 ^ 16) with 65536. change (2 ^ 24) with 16777216.
  lia.
Qed.

Lemma tie_Offset_ToActualOffset_proof : forall b3 b2 b1 b0,
  0 <= b0 < 256 -> 0 <= b1 < 256 -> 0 <= b2 < 256 -> 0 <= b3 < 256 ->
  Funcs.Offset_ToActualOffset (Funcs.mkOffset b3 b2 b1 b0) = 8 * offset_units (Funcs.mkOffset b3 b2 b1 b0).
Proof.
  intros b3 b2 b1 b0 H0 H1 H2 H3. unfold Funcs.Offset_ToActualOffset, offset_units.
  cbn [Funcs.Offset_b0 Funcs.Offset_b1 Funcs.Offset_b2 Funcs.Offset_b3].
  rewrite !Z.shiftl_mul_pow2 by lia.
  change (2 ^ 8) with 256. change (2 ^ 16) with 65536. change (2 ^ 24) with 16777216.
  unwrap. lia.
Qed.

(* write then read: the volume code's ToOffset / ToActualOffset pair is off -> 8 * (off / 8) *)
Lemma tie_Offset_roundtrip_proof : forall off, 0 <= off < 34359738368 ->
  Funcs.Offset_ToActualOffset (Funcs.ToOffset off) = 8 * (off / 8).
Proof.
  intros off H. destruct (tie_ToOffset_proof off H) as (E & H0 & H1 & H2 & H3).
  destruct (Funcs.ToOffset off) as [b3 b2 b1 b0] eqn:Eo.
  cbn [Funcs.Offset_b0 Funcs.Offset_b1 Funcs.Offset_b2 Funcs.Offset_b3] in H0, H1, H2, H3.
  rewrite tie_Offset_ToActualOffset_proof by assumption. rewrite E. reflexivity.
Qed.

Lemma tie_Offset_IsZero_proof : forall off, 0 <= off < 34359738368 ->
  Funcs.Offset_IsZero (Funcs.ToOffset off) = (off / 8 =? 0).
Proof.
  intros off H. destruct (tie_ToOffset_proof off H) as (E & H0 & H1 & H2 & H3).
  destruct (Funcs.ToOffset off) as [b3 b2 b1 b0] eqn:Eo. unfold offset_units in E.
  unfold Funcs.Offset_IsZero.
  cbn [Funcs.Offset_b0 Funcs.Offset_b1 Funcs.Offset_b2 Funcs.Offset_b3] in *.
  rewrite <- E.
  destruct (Z.eqb_spec b0 0), (Z.eqb_spec b1 0), (Z.eqb_spec b2 0), (Z.eqb_spec b3 0); cbn [andb];
    symmetry; try (apply Z.eqb_neq; lia); apply Z.eqb_eq; lia.
Qed.

(* ---------- weed/storage/erasure_coding/ec_volume_info.go: ShardBits (uint32) ---------- *)

Lemma of_N_lor : forall a b : N, Z.of_N (N.lor a b) = Z.lor (Z.of_N a) (Z.of_N b).
Proof. destruct a, b; reflexivity. Qed.
Lemma of_N_ldiff : forall a b : N, Z.of_N (N.ldiff a b) = Z.ldiff (Z.of_N a) (Z.of_N b).
Proof. destruct a, b; reflexivity. Qed.
Lemma of_N_shl1 : forall i : N, Z.of_N (N.shiftl 1 i) = 2 ^ Z.of_N i.
Proof. intros. rewrite N.shiftl_mul_pow2, N.mul_1_l, N2Z.inj_pow. reflexivity. Qed.

Lemma shl1_u32 : forall i : N, (i < 32)%N -> wrap_u 32 (Z.shiftl 1 (Z.of_N i)) = Z.of_N (N.shiftl 1 i).
Proof.
  intros i Hi. rewrite of_N_shl1.
  rewrite Z.shiftl_mul_pow2 by lia. rewrite Z.mul_1_l.
  apply wrap_u32_id. split; [apply Z.pow_nonneg; lia|].
  change 4294967296 with (2 ^ 32). apply Z.pow_lt_mono_r; lia.
Qed.

(* ids below 32 (shard ids are < TotalShardsCount = 14); for id >= 32 the Go shift gives 0 where
   the model's unbounded 2^id would set a bit outside the uint32 *)
Lemma tie_ShardBits_AddShardId_proof : forall b i : N, (i < 32)%N ->
  Funcs.ShardBits_AddShardId (Z.of_N b) (Z.of_N i) = Z.of_N (EcBalance.add_id b i).
Proof.
  intros b i Hi. unfold Funcs.ShardBits_AddShardId, EcBalance.add_id.
  rewrite shl1_u32 by assumption. rewrite of_N_lor. reflexivity.
Qed.

Lemma tie_ShardBits_RemoveShardId_proof : forall b i : N, (i < 32)%N ->
  Funcs.ShardBits_RemoveShardId (Z.of_N b) (Z.of_N i) = Z.of_N (EcBalance.remove_id b i).
Proof.
  intros b i Hi. unfold Funcs.ShardBits_RemoveShardId, EcBalance.remove_id.
  rewrite shl1_u32 by assumption. rewrite of_N_ldiff. reflexivity.
Qed.

Lemma land_pow2_testbit : forall a i, 0 <= i -> Z.land a (2 ^ i) = if Z.testbit a i then 2 ^ i else 0.
Proof.
  intros a i Hi. apply Z.bits_inj'. intros n Hn. rewrite Z.land_spec, Z.pow2_bits_eqb by lia.
  destruct (Z.eqb_spec i n) as [->|Hne].
  - destruct (Z.testbit a n); [rewrite Z.pow2_bits_true by lia | rewrite Z.bits_0]; reflexivity.
  - rewrite andb_false_r. destruct (Z.testbit a i); [rewrite Z.pow2_bits_false by lia | rewrite Z.bits_0]; reflexivity.
Qed.

Lemma tie_ShardBits_HasShardId_proof : forall b i : N, (i < 32)%N ->
  Funcs.ShardBits_HasShardId (Z.of_N b) (Z.of_N i) = EcBalance.has b i.
Proof.
  intros b i Hi. unfold Funcs.ShardBits_HasShardId, EcBalance.has.
  rewrite shl1_u32 by assumption. rewrite of_N_shl1.
  rewrite land_pow2_testbit by lia. rewrite <- N2Z.inj_testbit.
  assert (0 < 2 ^ Z.of_N i) by (apply Z.pow_pos_nonneg; lia).
  destruct (Z.testbit (Z.of_N b) (Z.of_N i)); [apply Z.gtb_lt; assumption | reflexivity].
Qed.

(* Minus / Plus: the model (TopoCount.sync_ec) writes N.ldiff / N.lor directly *)
Lemma tie_ShardBits_Minus_proof : forall a b : N,
  Funcs.ShardBits_Minus (Z.of_N a) (Z.of_N b) = Z.of_N (N.ldiff a b).
Proof. intros. unfold Funcs.ShardBits_Minus. rewrite of_N_ldiff. reflexivity. Qed.

Lemma tie_ShardBits_Plus_proof : forall a b : N,
  Funcs.ShardBits_Plus (Z.of_N a) (Z.of_N b) = Z.of_N (N.lor a b).
Proof. intros. unfold Funcs.ShardBits_Plus. rewrite of_N_lor. reflexivity. Qed.

(* ShardIdCount: `for count = 0; b > 0; count++ { b &= b - 1 }` clears the lowest set bit per round
   (Kernighan); the model is the structural bit count TopoCount.popcount *)
Lemma popcount_Ndouble : forall x : N, TopoCount.popcount (Pos.Ndouble x) = TopoCount.popcount x.
Proof. destruct x; reflexivity. Qed.

Lemma popcount_clear_lowest : forall p : positive,
  TopoCount.popcount (N.land (Npos p) (N.pred (Npos p))) = TopoCount.popcount_pos p - 1.
Proof.
  induction p as [q IH|q IH|].
  - (* q~1 & q~0 = (q & q)~0 *)
    change (N.pred (Npos q~1)) with (Npos q~0).
    change (N.land (Npos q~1) (Npos q~0)) with (Pos.Ndouble (N.land (Npos q) (Npos q))).
    rewrite N.land_diag, popcount_Ndouble. cbn [TopoCount.popcount TopoCount.popcount_pos]. lia.
  - change (N.pred (Npos q~0)) with (Npos (Pos.pred_double q)).
    destruct (Pos.succ_pred_or q) as [->|E]; [reflexivity|].
    remember (Pos.pred q) as r eqn:Er. clear Er. subst q.
    rewrite Pos.pred_double_succ.
    change (N.land (Npos (Pos.succ r)~0) (Npos r~1)) with (Pos.Ndouble (N.land (Npos (Pos.succ r)) (Npos r))).
    rewrite popcount_Ndouble.
    assert (Ep : N.pred (Npos (Pos.succ r)) = Npos r) by (rewrite <- N.pos_pred_spec; apply Pos.pred_N_succ).
    rewrite Ep in IH. rewrite IH. cbn [TopoCount.popcount_pos]. reflexivity.
  - reflexivity.
Qed.

Lemma popcount_nonneg : forall n, 0 <= TopoCount.popcount n.
Proof. destruct n as [|p]; [cbn; lia|]. cbn. induction p; cbn [TopoCount.popcount_pos]; lia. Qed.

Lemma popcount_pos_le : forall p, TopoCount.popcount_pos p <= Zpos p.
Proof. induction p; cbn [TopoCount.popcount_pos]; lia. Qed.

Lemma land_pred_lt32 : forall n : N, (0 < n < 4294967296)%N -> (N.land n (N.pred n) < 4294967296)%N.
Proof.
  intros n Hn. destruct (N.eq_dec (N.land n (N.pred n)) 0) as [->|Hz]; [lia|].
  change 4294967296%N with (2 ^ 32)%N in *.
  apply N.log2_lt_pow2; [lia|].
  pose proof (N.log2_land n (N.pred n)) as Hl.
  assert (N.log2 n < 32)%N by (apply N.log2_lt_pow2; lia). lia.
Qed.

Lemma ShardIdCount_loop_tie : forall (fuel : nat) (n : N) (count : Z),
  (n < 4294967296)%N -> 0 <= count -> count + TopoCount.popcount n < 4611686018427387904 ->
  (Z.to_nat (TopoCount.popcount n) + 1 <= fuel)%nat ->
  Funcs.ShardBits_ShardIdCount_loop1 fuel (Z.of_N n) count = Some (count + TopoCount.popcount n).
Proof.
  induction fuel as [|f IH]; intros n count Hn Hc Hsum Hf; [lia|].
  cbn [Funcs.ShardBits_ShardIdCount_loop1].
  destruct n as [|p].
  - cbn. rewrite Z.add_0_r. reflexivity.
  - replace (Z.of_N (Npos p) >? 0) with true by (symmetry; apply Z.gtb_lt; lia).
    rewrite (wrap_u32_id (Z.of_N (Npos p) - 1)) by lia.
    replace (Z.of_N (Npos p) - 1) with (Z.of_N (N.pred (Npos p))) by lia.
    replace (Z.land (Z.of_N (Npos p)) (Z.of_N (N.pred (Npos p)))) with (Z.of_N (N.land (Npos p) (N.pred (Npos p))))
      by (destruct (N.pred (Npos p)); reflexivity).
    pose proof (popcount_clear_lowest p) as Hk.
    pose proof (popcount_nonneg (N.land (Npos p) (N.pred (Npos p)))) as Hnn.
    cbn [TopoCount.popcount] in Hsum, Hf.
    rewrite (wrap_s64_id (count + 1)) by lia.
    cbn [TopoCount.popcount].
    rewrite IH; [rewrite Hk; f_equal; lia | apply land_pred_lt32; lia | lia | lia | lia].
Qed.

Lemma tie_ShardBits_ShardIdCount_proof : forall (n : N) (fuel : nat),
  (n < 4294967296)%N -> (Z.to_nat (TopoCount.popcount n) + 1 <= fuel)%nat ->
  Funcs.ShardBits_ShardIdCount fuel (Z.of_N n) = Some (TopoCount.popcount n).
Proof.
  intros n fuel Hn Hf. unfold Funcs.ShardBits_ShardIdCount.
  rewrite ShardIdCount_loop_tie; try lia.
  - reflexivity.
  - destruct n as [|p]; cbn [TopoCount.popcount]; [lia|]. pose proof (popcount_pos_le p). lia.
Qed.

(* 33 rounds always suffice for a uint32 *)
Lemma popcount_u32 : forall n : N, (n < 4294967296)%N -> TopoCount.popcount n <= 32.
Proof.
  intros n Hn. destruct n as [|p]; [cbn; lia|]. cbn [TopoCount.popcount].
  assert (H : forall q, TopoCount.popcount_pos q <= Z.of_N (N.size (Npos q))).
  { induction q; cbn [TopoCount.popcount_pos N.size Pos.size] in *; lia. }
  specialize (H p). assert (N.size (Npos p) <= 32)%N; [|lia].
  rewrite N.size_log2 by lia. assert (N.log2 (Npos p) < 32)%N; [|lia].
  apply N.log2_lt_pow2; [lia|]. exact Hn.
Qed.


(* ================= anonymous literals (harness/cmd/funcgen/lits.go) =================
   Lit_* are extracted from the Go function bodies by a structural pattern on every run.
   Where the model has a NAMED definition the tie is an equation with it; where the model uses
   the number inline in a short definition the tie restates that definition with the extracted
   literal in place of the number (reflexivity); the remaining ones are PINNED to the value the
   model / check / harness files use inline (named in the comment), so that a change of the
   literal in the source breaks an obligation here and points at the place to review. *)

(* CheckAndFixVolumeDataIntegrity: `for i := 1; i <= 10 && ...` - the window of verified entries *)
Lemma lit_CheckAndFix_window_proof : forall es recs len,
  EcIndex.dm_check_fix es recs len =
  EcIndex.dm_cf_loop (Z.to_nat Funcs.Lit_CheckAndFix_window) (rev es) (N.of_nat (length es) - 1) recs len (N.of_nat (length es)).
Proof. reflexivity. Qed.
(* VolumeCrash.check_and_fix calls `check_loop 10` inside a Section: pinned *)
Lemma lit_CheckAndFix_window_pin_proof : Funcs.Lit_CheckAndFix_window = 10.
Proof. reflexivity. Qed.

Lemma lit_lookback_proof : Funcs.Lit_CompactSection_Set_lookback = Z.of_nat NeedleMap.lookback.
Proof. reflexivity. Qed.

Lemma lit_sb_extra_max_proof : Funcs.Lit_SuperBlock_Bytes_extraMax = Z.of_N Codecs.sb_extra_max.
Proof. reflexivity. Qed.

Lemma lit_max_int64_proof :
  Funcs.Lit_ViewFromVisibleIntervals_toEnd = Z.of_N Chunks.max_int64 /\
  Funcs.Lit_ViewFromChunks_stop = Z.of_N Chunks.max_int64.
Proof. split; reflexivity. Qed.

Lemma lit_buckets_path_proof : Funcs.Lit_startS3Server_bucketsPath = S3Paths.buckets_path.
Proof. reflexivity. Qed.

(* fmt.Sprintf with %s verbs only: substitute the arguments in order *)
Definition pct : Ascii.ascii := Ascii.ascii_of_N 37.   (* % *)
Definition ess : Ascii.ascii := Ascii.ascii_of_N 115.  (* s *)
Fixpoint subst_s (f : String.string) (args : list String.string) : String.string :=
  match f with
  | String.EmptyString => String.EmptyString
  | String.String c r =>
      match r with
      | String.String c2 r' =>
          if Ascii.eqb c pct && Ascii.eqb c2 ess then
            match args with
            | a :: rest => String.append a (subst_s r' rest)
            | nil => String.String c (String.String c2 (subst_s r' nil))
            end
          else String.String c (subst_s r args)
      | String.EmptyString => String.String c String.EmptyString
      end
  end.

Lemma lit_uploads_folder_proof : forall b : String.string,
  S3Paths.uploads_dir b = subst_s Funcs.Lit_genUploadsFolder_format [S3Paths.buckets_path; b].
Proof.
  intros b. unfold S3Paths.uploads_dir, S3Paths.bucket_dir, S3Paths.buckets_path. cbn.
  reflexivity.
Qed.

(* ParseNeedleIdCookie: CookieSize*2 and (NeedleIdSize+CookieSize)*2, folded from the named constants *)
Lemma lit_parse_key_cookie_proof : forall s : list N,
  Codecs.parse_key_cookie s =
  if (Needle.len s <=? Z.to_N Funcs.Lit_ParseNeedleIdCookie_minLen)%N then None
  else if (Z.to_N Funcs.Lit_ParseNeedleIdCookie_maxLen <? Needle.len s)%N then None
  else
    let split := (Needle.len s - Z.to_N Funcs.Lit_ParseNeedleIdCookie_cookieLen)%N in
    match Codecs.parse_uint_hex 64 (Needle.takeN split s) with
    | None => None
    | Some key => match Codecs.parse_uint_hex 32 (Needle.dropN split s) with
                  | None => None
                  | Some cookie => Some (key, cookie)
                  end
    end.
Proof. reflexivity. Qed.

(* pinned literals: the files that use the number inline are named *)
Lemma lit_pins_proof :
  (* C05: harness/check pass compact_map.go `batch` inside every case (c_batch) *)
  Funcs.Lit_needle_map_batch = 100000 /\
  (* C06: WriteEcFiles / RebuildEcFiles buffer 256 KiB (check/C06.v, harness c06: 262144) *)
  Funcs.Lit_WriteEcFiles_bufferSize = 262144 /\ Funcs.Lit_RebuildEcFiles_bufferSize = 262144 /\
  (* C38: VolumeConc.step LDecide (4194304 <=? bytes, 128 <=? requests) and LSend (queue capacity 128) *)
  Funcs.Lit_startWorker_maxBytes = 4194304 /\ Funcs.Lit_startWorker_maxRequests = 128 /\
  Funcs.Lit_NewVolume_chanCapacity = 128 /\
  (* C18: FilerNS rename lists a directory in pages of 1024 (a directory has < 1024 children in the model) *)
  Funcs.Lit_moveFolderSubEntries_pageSize = 1024 /\
  (* C22: LogBuf.st has 3 sealed slots (PreviousBufferCount); BufferSize is the model parameter c; flushChan 256 *)
  Funcs.Lit_log_buffer_PreviousBufferCount = 3 /\ Funcs.Lit_log_buffer_BufferSize = 4194304 /\
  Funcs.Lit_NewLogBuffer_flushChanCapacity = 256 /\
  (* C14: Vacuum.CkOver = "garbage ratio >= threshold" (operator code 5 = >=); timeouts minutes*(limit/1024/1024/1000+1), x3 for compaction *)
  Funcs.Lit_batchVacuumVolumeCheck_cmp = 5 /\ Funcs.Lit_batchVacuumVolumeCheck_timeoutDivisor = 1000 /\
  Funcs.Lit_batchVacuumVolumeCompact_timeoutFactor = 3.
Proof. repeat split; reflexivity. Qed.


(* C11: the master's refresh loop and registration compare sizes with the limit by >= (operator code 5),
   the crowded test by > (code 4): TopoMulti.is_full = (limit <=? size), is_crowded = (limit*9 <? size*10),
   TopoLayout.remember_oversized = (c_limit c <=? vi_size vi) *)
Lemma lit_collect_pins_proof :
  Funcs.Lit_CollectFull_cmp = 5 /\ Funcs.Lit_CollectCrowded_cmp = 4 /\ Funcs.Lit_isOversized_cmp = 5.
Proof. repeat split; reflexivity. Qed.

(* ================= offset width: 4-byte build (gen/Funcs.v) and 5BytesOffset build (gen/Funcs5.v) =================
   Funcs5 is translated from the files selected by the build tag 5BytesOffset.  The width-indexed
   model functions are Codecs.to_offset_w / off_parse / max_volume_size (C08; EcIndex and the index
   codecs of C03/C05/C07 take the width as a parameter of every case). *)

Definition offset_units5 (o : Funcs5.Offset) : Z :=
  Funcs5.Offset_b0 o + 256 * Funcs5.Offset_b1 o + 65536 * Funcs5.Offset_b2 o + 16777216 * Funcs5.Offset_b3 o
  + 4294967296 * Funcs5.Offset_b4 o.

(* every non-negative int64: the 4-byte build truncates offset/8 to uint32, the 5-byte build to 40 bits *)
Lemma tie_ToOffset_w4_proof : forall a : N, Z.of_N a <= max63 ->
  offset_units (Funcs.ToOffset (Z.of_N a)) = Z.of_N (Codecs.to_offset_w 4 a).
Proof.
  intros a Ha. unfold max63 in Ha. unfold offset_units, Funcs.ToOffset, Funcs.Uint32ToOffset, Codecs.to_offset_w, Codecs.off_limit.
  cbn [Funcs.Offset_b0 Funcs.Offset_b1 Funcs.Offset_b2 Funcs.Offset_b3
       Funcs.OffsetLower_b0 Funcs.OffsetLower_b1 Funcs.OffsetLower_b2 Funcs.OffsetLower_b3 N.eqb Pos.eqb].
  rewrite Z.quot_div_nonneg by lia. rewrite wrap_u32_mod.
  rewrite !Z.shiftr_div_pow2 by lia. rewrite !wrap_u8_mod.
  change (2 ^ 8) with 256. change (2 ^ 16) with 65536. change (2 ^ 24) with 16777216.
  lia.
Qed.

Lemma tie5_ToOffset_proof : forall a : N, Z.of_N a <= max63 ->
  offset_units5 (Funcs5.ToOffset (Z.of_N a)) = Z.of_N (Codecs.to_offset_w 5 a) /\
  0 <= Funcs5.Offset_b0 (Funcs5.ToOffset (Z.of_N a)) < 256 /\ 0 <= Funcs5.Offset_b1 (Funcs5.ToOffset (Z.of_N a)) < 256 /\
  0 <= Funcs5.Offset_b2 (Funcs5.ToOffset (Z.of_N a)) < 256 /\ 0 <= Funcs5.Offset_b3 (Funcs5.ToOffset (Z.of_N a)) < 256 /\
  0 <= Funcs5.Offset_b4 (Funcs5.ToOffset (Z.of_N a)) < 256.
Proof.
  intros a Ha. unfold max63 in Ha. unfold offset_units5, Funcs5.ToOffset, Codecs.to_offset_w, Codecs.off_limit.
  cbn [Funcs5.Offset_b0 Funcs5.Offset_b1 Funcs5.Offset_b2 Funcs5.Offset_b3 Funcs5.Offset_b4 Funcs5.OffsetHigher_b4
       Funcs5.OffsetLower_b0 Funcs5.OffsetLower_b1 Funcs5.OffsetLower_b2 Funcs5.OffsetLower_b3 N.eqb Pos.eqb].
  rewrite Z.quot_div_nonneg by lia.
  rewrite !Z.shiftr_div_pow2 by lia. rewrite !wrap_u8_mod.
  change (2 ^ 8) with 256. change (2 ^ 16) with 65536. change (2 ^ 24) with 16777216. change (2 ^ 32) with 4294967296.
  lia.
Qed.

Lemma tie5_Offset_ToActualOffset_proof : forall b4 b3 b2 b1 b0,
  0 <= b0 < 256 -> 0 <= b1 < 256 -> 0 <= b2 < 256 -> 0 <= b3 < 256 -> 0 <= b4 < 256 ->
  Funcs5.Offset_ToActualOffset (Funcs5.mkOffset b4 b3 b2 b1 b0) = 8 * offset_units5 (Funcs5.mkOffset b4 b3 b2 b1 b0).
Proof.
  intros b4 b3 b2 b1 b0 H0 H1 H2 H3 H4. unfold Funcs5.Offset_ToActualOffset, offset_units5.
  cbn [Funcs5.Offset_b0 Funcs5.Offset_b1 Funcs5.Offset_b2 Funcs5.Offset_b3 Funcs5.Offset_b4].
  rewrite !Z.shiftl_mul_pow2 by lia.
  change (2 ^ 8) with 256. change (2 ^ 16) with 65536. change (2 ^ 24) with 16777216. change (2 ^ 32) with 4294967296.
  unwrap. lia.
Qed.

(* below MaxPossibleVolumeSize of the 5-byte build (8 TiB) writing and reading an offset is off -> 8*(off/8) *)
Lemma tie5_Offset_roundtrip_proof : forall a : N, (a < Codecs.max_volume_size 5)%N ->
  Funcs5.Offset_ToActualOffset (Funcs5.ToOffset (Z.of_N a)) = 8 * (Z.of_N a / 8).
Proof.
  intros a Ha. change (Codecs.max_volume_size 5) with 8796093022208%N in Ha.
  destruct (tie5_ToOffset_proof a) as (E & H0 & H1 & H2 & H3 & H4); [unfold max63; lia|].
  destruct (Funcs5.ToOffset (Z.of_N a)) as [b4 b3 b2 b1 b0] eqn:Eo.
  cbn [Funcs5.Offset_b0 Funcs5.Offset_b1 Funcs5.Offset_b2 Funcs5.Offset_b3 Funcs5.Offset_b4] in H0, H1, H2, H3, H4.
  rewrite tie5_Offset_ToActualOffset_proof by assumption. rewrite E.
  unfold Codecs.to_offset_w, Codecs.off_limit. cbn [N.eqb Pos.eqb]. lia.
Qed.

Lemma tie5_Offset_IsZero_proof : forall a : N, Z.of_N a <= max63 ->
  Funcs5.Offset_IsZero (Funcs5.ToOffset (Z.of_N a)) = (Codecs.to_offset_w 5 a =? 0)%N.
Proof.
  intros a Ha. destruct (tie5_ToOffset_proof a Ha) as (E & H0 & H1 & H2 & H3 & H4).
  destruct (Funcs5.ToOffset (Z.of_N a)) as [b4 b3 b2 b1 b0] eqn:Eo. unfold offset_units5 in E.
  unfold Funcs5.Offset_IsZero.
  cbn [Funcs5.Offset_b0 Funcs5.Offset_b1 Funcs5.Offset_b2 Funcs5.Offset_b3 Funcs5.Offset_b4] in *.
  destruct (N.eqb_spec (Codecs.to_offset_w 5 a) 0) as [Ez|Ez];
  destruct (Z.eqb_spec b0 0), (Z.eqb_spec b1 0), (Z.eqb_spec b2 0), (Z.eqb_spec b3 0), (Z.eqb_spec b4 0); cbn [andb];
    try reflexivity; exfalso; lia.
Qed.

(* BytesToOffset reads bytes[0..3] big endian and (5-byte build) bytes[4] as the high byte: off_parse *)
Lemma tie_BytesToOffset_w4_proof : forall x0 x1 x2 x3 : N,
  exists o, Funcs.BytesToOffset [Z.of_N x0; Z.of_N x1; Z.of_N x2; Z.of_N x3] = Some o /\
            offset_units o = Z.of_N (Codecs.off_parse 4 [x0; x1; x2; x3]).
Proof.
  intros. exists (Funcs.mkOffset (Z.of_N x0) (Z.of_N x1) (Z.of_N x2) (Z.of_N x3)). split; [reflexivity|].
  change (Codecs.off_parse 4 [x0; x1; x2; x3]) with (((((0 * 256 + x0) * 256 + x1) * 256 + x2) * 256 + x3) + 0)%N.
  unfold offset_units. cbn [Funcs.Offset_b0 Funcs.Offset_b1 Funcs.Offset_b2 Funcs.Offset_b3]. lia.
Qed.

Lemma tie5_BytesToOffset_proof : forall x0 x1 x2 x3 x4 : N,
  exists o, Funcs5.BytesToOffset [Z.of_N x0; Z.of_N x1; Z.of_N x2; Z.of_N x3; Z.of_N x4] = Some o /\
            offset_units5 o = Z.of_N (Codecs.off_parse 5 [x0; x1; x2; x3; x4]).
Proof.
  intros. exists (Funcs5.mkOffset (Z.of_N x4) (Z.of_N x0) (Z.of_N x1) (Z.of_N x2) (Z.of_N x3)). split; [reflexivity|].
  change (Codecs.off_parse 5 [x0; x1; x2; x3; x4]) with (((((0 * 256 + x0) * 256 + x1) * 256 + x2) * 256 + x3) + x4 * 4294967296)%N.
  unfold offset_units5. cbn [Funcs5.Offset_b0 Funcs5.Offset_b1 Funcs5.Offset_b2 Funcs5.Offset_b3 Funcs5.Offset_b4]. lia.
Qed.
(* a slice shorter than the offset width panics *)
Lemma tie5_BytesToOffset_short_proof : forall b : list Z, (length b < 5)%nat -> Funcs5.BytesToOffset b = None.
Proof.
  intros b Hb. unfold Funcs5.BytesToOffset.
  replace (4 <? Z.of_nat (length b)) with false by (symmetry; apply Z.ltb_ge; lia). reflexivity.
Qed.

Lemma tie_width_consts_proof :
  Funcs.Const_OffsetSize = 4 /\ Funcs5.Const_OffsetSize = 5 /\
  Funcs.Const_MaxPossibleVolumeSize = Z.of_N (Codecs.max_volume_size 4) /\
  Funcs5.Const_MaxPossibleVolumeSize = Z.of_N (Codecs.max_volume_size 5) /\
  Funcs.Const_NeedleMapEntrySize = Z.of_N (EcIndex.entry_size 4) /\
  Funcs5.Const_NeedleMapEntrySize = Z.of_N (EcIndex.entry_size 5).
Proof. repeat split; reflexivity. Qed.

(* ================= weed/util/bytes.go: BytesToUint32 / BytesToUint64 (big endian, loops over a slice) ================= *)

Definition zdec (l : list Z) : Z := fold_left (fun a b => a * 256 + b) l 0.
Definition bytes_ok (l : list Z) : Prop := Forall (fun x => 0 <= x < 256) l.

Lemma zdec_snoc : forall l y, zdec (l ++ [y]) = zdec l * 256 + y.
Proof. intros. unfold zdec. rewrite fold_left_app. reflexivity. Qed.

Lemma zdec_of_N : forall l : list N, zdec (map Z.of_N l) = Z.of_N (Needle.be_decode l).
Proof.
  intros l. unfold zdec, Needle.be_decode.
  change 0 with (Z.of_N 0) at 1. generalize 0%N as acc.
  induction l as [|x l IH]; intros acc; cbn [map fold_left]; [reflexivity|].
  rewrite <- IH. f_equal. lia.
Qed.

Lemma firstn_snoc_nth : forall (l : list Z) (i : nat), (i < length l)%nat ->
  firstn (S i) l = firstn i l ++ [nth i l 0].
Proof.
  induction l as [|x l IH]; intros i Hi; cbn [length] in Hi; [lia|].
  destruct i as [|i]; [reflexivity|].
  change (x :: firstn (S i) l = (x :: firstn i l) ++ [nth i l 0]). rewrite IH by lia. reflexivity.
Qed.

Lemma bytes_ok_firstn : forall l i, bytes_ok l -> bytes_ok (firstn i l).
Proof.
  unfold bytes_ok. induction l as [|x l IH]; intros i H; destruct i; cbn [firstn]; try constructor.
  - inversion H; assumption.
  - apply IH. inversion H; assumption.
Qed.

Lemma bytes_ok_nth : forall l i, bytes_ok l -> 0 <= nth i l 0 < 256.
Proof.
  unfold bytes_ok. induction l as [|x l IH]; intros i H; destruct i; cbn [nth]; try lia.
  - inversion H; assumption.
  - apply IH. inversion H; assumption.
Qed.

Lemma zdec_bound : forall l, bytes_ok l -> 0 <= zdec l < 256 ^ Z.of_nat (length l).
Proof.
  induction l as [|y l IH] using rev_ind; intros H.
  - cbn. lia.
  - rewrite zdec_snoc, app_length. cbn [length]. rewrite Nat.add_1_r, Nat2Z.inj_succ, Z.pow_succ_r by lia.
    assert (Hl : bytes_ok l) by (unfold bytes_ok in *; apply Forall_app in H; tauto).
    assert (Hy : 0 <= y < 256) by (unfold bytes_ok in H; apply Forall_app in H; destruct H as [_ H]; inversion H; assumption).
    specialize (IH Hl). lia.
Qed.

Lemma pow256_mono : forall a b : nat, (a <= b)%nat -> 256 ^ Z.of_nat a <= 256 ^ Z.of_nat b.
Proof. intros. apply Z.pow_le_mono_r; lia. Qed.

Lemma BytesToUint32_loop_tie : forall (l : list Z), bytes_ok l -> (1 <= length l <= 4)%nat ->
  forall (fuel i : nat), (i <= length l - 1)%nat -> (length l - i <= fuel)%nat ->
  Funcs.BytesToUint32_loop1 fuel l (zdec (firstn i l) * 256) (Z.of_nat (length l)) (Z.of_nat i) = Some (zdec l).
Proof.
  intros l Hok Hlen. induction fuel as [|f IH]; intros i Hi Hf; [lia|].
  cbn [Funcs.BytesToUint32_loop1].
  rewrite (wrap_u64_id (Z.of_nat (length l) - 1)) by lia.
  pose proof (zdec_bound (firstn (S i) l) (bytes_ok_firstn l (S i) Hok)) as Hb.
  rewrite firstn_length, (firstn_snoc_nth l i) in Hb by lia. rewrite zdec_snoc in Hb.
  pose proof (bytes_ok_nth l i Hok) as Hn.
  rewrite Nat2Z.id.
  replace ((0 <=? Z.of_nat i) && (Z.of_nat i <? Z.of_nat (length l))) with true
    by (symmetry; apply andb_true_iff; split; [apply Z.leb_le | apply Z.ltb_lt]; lia).
  destruct (Z.of_nat i <? Z.of_nat (length l) - 1) eqn:E.
  - apply Z.ltb_lt in E.
    assert (Hp : 256 ^ Z.of_nat (Nat.min (S i) (length l)) <= 256 ^ Z.of_nat 3) by (apply pow256_mono; lia).
    change (256 ^ Z.of_nat 3) with 16777216 in Hp.
    rewrite (wrap_u32_id (zdec (firstn i l) * 256 + nth i l 0)) by lia.
    rewrite Z.shiftl_mul_pow2 by lia. change (2 ^ 8) with 256.
    rewrite (wrap_u32_id ((zdec (firstn i l) * 256 + nth i l 0) * 256)) by lia.
    rewrite (wrap_u64_id (Z.of_nat i + 1)) by lia.
    replace (Z.of_nat i + 1) with (Z.of_nat (S i)) by lia.
    rewrite <- zdec_snoc, <- firstn_snoc_nth by lia.
    apply IH; lia.
  - apply Z.ltb_ge in E. assert (Ei : i = (length l - 1)%nat) by lia.
    assert (Hp : 256 ^ Z.of_nat (Nat.min (S i) (length l)) <= 256 ^ Z.of_nat 4) by (apply pow256_mono; lia).
    change (256 ^ Z.of_nat 4) with 4294967296 in Hp.
    replace (Z.of_nat (length l) - 1) with (Z.of_nat i) by lia.
    replace ((0 <=? Z.of_nat i) && (Z.of_nat i <? Z.of_nat (length l))) with true
      by (symmetry; apply andb_true_iff; split; [apply Z.leb_le | apply Z.ltb_lt]; lia).
    rewrite Nat2Z.id.
    rewrite (wrap_u32_id (zdec (firstn i l) * 256 + nth i l 0)) by lia.
    rewrite <- zdec_snoc, <- firstn_snoc_nth by lia.
    replace (S i) with (length l) by lia. rewrite firstn_all. reflexivity.
Qed.

Lemma tie_BytesToUint32_proof : forall (l : list N) (fuel : nat),
  Forall (fun x => (x < 256)%N) l -> (1 <= length l <= 4)%nat -> (length l <= fuel)%nat ->
  Funcs.BytesToUint32 fuel (map Z.of_N l) = Some (Z.of_N (Needle.be_decode l)).
Proof.
  intros l fuel Hb Hlen Hf. unfold Funcs.BytesToUint32.
  assert (Hok : bytes_ok (map Z.of_N l)).
  { unfold bytes_ok. apply Forall_map. eapply Forall_impl; [|exact Hb]. cbn. intros; lia. }
  assert (Hl : length (map Z.of_N l) = length l) by apply map_length.
  rewrite (wrap_u64_id (Z.of_nat (length (map Z.of_N l)))) by lia.
  rewrite <- zdec_of_N.
  apply (BytesToUint32_loop_tie (map Z.of_N l) Hok) with (i := 0%nat); lia.
Qed.
Lemma BytesToUint64_loop_tie : forall (l : list Z), bytes_ok l -> (1 <= length l <= 8)%nat ->
  forall (fuel i : nat), (i <= length l - 1)%nat -> (length l - i <= fuel)%nat ->
  Funcs.BytesToUint64_loop1 fuel l (zdec (firstn i l) * 256) (Z.of_nat (length l)) (Z.of_nat i) = Some (zdec l).
Proof.
  intros l Hok Hlen. induction fuel as [|f IH]; intros i Hi Hf; [lia|].
  cbn [Funcs.BytesToUint64_loop1].
  rewrite (wrap_u64_id (Z.of_nat (length l) - 1)) by lia.
  pose proof (zdec_bound (firstn (S i) l) (bytes_ok_firstn l (S i) Hok)) as Hb.
  rewrite firstn_length, (firstn_snoc_nth l i) in Hb by lia. rewrite zdec_snoc in Hb.
  pose proof (bytes_ok_nth l i Hok) as Hn.
  rewrite Nat2Z.id.
  replace ((0 <=? Z.of_nat i) && (Z.of_nat i <? Z.of_nat (length l))) with true
    by (symmetry; apply andb_true_iff; split; [apply Z.leb_le | apply Z.ltb_lt]; lia).
  destruct (Z.of_nat i <? Z.of_nat (length l) - 1) eqn:E.
  - apply Z.ltb_lt in E.
    assert (Hp : 256 ^ Z.of_nat (Nat.min (S i) (length l)) <= 256 ^ Z.of_nat 7) by (apply pow256_mono; lia).
    change (256 ^ Z.of_nat 7) with 72057594037927936 in Hp.
    rewrite (wrap_u64_id (zdec (firstn i l) * 256 + nth i l 0)) by lia.
    rewrite Z.shiftl_mul_pow2 by lia. change (2 ^ 8) with 256.
    rewrite (wrap_u64_id ((zdec (firstn i l) * 256 + nth i l 0) * 256)) by lia.
    rewrite (wrap_u64_id (Z.of_nat i + 1)) by lia.
    replace (Z.of_nat i + 1) with (Z.of_nat (S i)) by lia.
    rewrite <- zdec_snoc, <- firstn_snoc_nth by lia.
    apply IH; lia.
  - apply Z.ltb_ge in E. assert (Ei : i = (length l - 1)%nat) by lia.
    assert (Hp : 256 ^ Z.of_nat (Nat.min (S i) (length l)) <= 256 ^ Z.of_nat 8) by (apply pow256_mono; lia).
    change (256 ^ Z.of_nat 8) with 18446744073709551616 in Hp.
    replace (Z.of_nat (length l) - 1) with (Z.of_nat i) by lia.
    replace ((0 <=? Z.of_nat i) && (Z.of_nat i <? Z.of_nat (length l))) with true
      by (symmetry; apply andb_true_iff; split; [apply Z.leb_le | apply Z.ltb_lt]; lia).
    rewrite Nat2Z.id.
    rewrite (wrap_u64_id (zdec (firstn i l) * 256 + nth i l 0)) by lia.
    rewrite <- zdec_snoc, <- firstn_snoc_nth by lia.
    replace (S i) with (length l) by lia. rewrite firstn_all. reflexivity.
Qed.

Lemma tie_BytesToUint64_proof : forall (l : list N) (fuel : nat),
  Forall (fun x => (x < 256)%N) l -> (1 <= length l <= 8)%nat -> (length l <= fuel)%nat ->
  Funcs.BytesToUint64 fuel (map Z.of_N l) = Some (Z.of_N (Needle.be_decode l)).
Proof.
  intros l fuel Hb Hlen Hf. unfold Funcs.BytesToUint64.
  assert (Hok : bytes_ok (map Z.of_N l)).
  { unfold bytes_ok. apply Forall_map. eapply Forall_impl; [|exact Hb]. cbn. intros; lia. }
  assert (Hl : length (map Z.of_N l) = length l) by apply map_length.
  rewrite (wrap_u64_id (Z.of_nat (length (map Z.of_N l)))) by lia.
  rewrite <- zdec_of_N.
  apply (BytesToUint64_loop_tie (map Z.of_N l) Hok) with (i := 0%nat); lia.
Qed.

(* types.BytesToSize = Size(BytesToUint32(bytes)): the int32 reading of the 4 stored bytes *)
Lemma tie_BytesToSize_proof : forall (l : list N) (fuel : nat),
  Forall (fun x => (x < 256)%N) l -> (1 <= length l <= 4)%nat -> (length l <= fuel)%nat ->
  Funcs.BytesToSize fuel (map Z.of_N l) = Some (EcIndex.size_of_u32 (Needle.be_decode l)).
Proof.
  intros l fuel Hb Hlen Hf. unfold Funcs.BytesToSize. rewrite tie_BytesToUint32_proof by assumption.
  f_equal. unfold EcIndex.size_of_u32, EcIndex.two31.
  assert (Hr : 0 <= Z.of_N (Needle.be_decode l) < 4294967296).
  { rewrite <- zdec_of_N.
    assert (Hok : bytes_ok (map Z.of_N l)).
    { unfold bytes_ok. apply Forall_map. eapply Forall_impl; [|exact Hb]. cbn. intros; lia. }
    pose proof (zdec_bound _ Hok) as Hz. rewrite map_length in Hz.
    assert (Hp : 256 ^ Z.of_nat (length l) <= 256 ^ Z.of_nat 4) by (apply pow256_mono; lia).
    change (256 ^ Z.of_nat 4) with 4294967296 in Hp. lia. }
  rewrite wrap_s32_of_u32 by exact Hr.
  destruct (Z.ltb_spec (Z.of_N (Needle.be_decode l)) 2147483648), (N.ltb_spec (Needle.be_decode l) 2147483648); lia.
Qed.

Lemma tie_BytesToNeedleId_proof : forall (l : list N) (fuel : nat),
  Forall (fun x => (x < 256)%N) l -> (1 <= length l <= 8)%nat -> (length l <= fuel)%nat ->
  Funcs.BytesToNeedleId fuel (map Z.of_N l) = Some (Z.of_N (Needle.be_decode l)).
Proof. intros. unfold Funcs.BytesToNeedleId. rewrite tie_BytesToUint64_proof by assumption. reflexivity. Qed.

Lemma Forall_firstn_N : forall (P : N -> Prop) (l : list N) (n : nat), Forall P l -> Forall P (firstn n l).
Proof.
  induction l as [|x l IH]; intros n H; destruct n; cbn [firstn]; try constructor.
  - inversion H; assumption.
  - apply IH. inversion H; assumption.
Qed.

(* BytesToCookie reads bytes[0:4] *)
Lemma tie_BytesToCookie_proof : forall (l : list N) (fuel : nat),
  Forall (fun x => (x < 256)%N) l -> (4 <= length l)%nat -> (4 <= fuel)%nat ->
  Funcs.BytesToCookie fuel (map Z.of_N l) = Some (Z.of_N (Needle.be_decode (firstn 4 l))).
Proof.
  intros l fuel Hb Hlen Hf. unfold Funcs.BytesToCookie.
  rewrite map_length.
  replace (((0 <=? 0) && (0 <=? 4)) && (4 <=? Z.of_nat (length l))) with true
    by (symmetry; cbn [Z.leb andb]; apply Z.leb_le; lia).
  change (Z.to_nat (4 - 0)) with 4%nat. change (Z.to_nat 0) with 0%nat. cbn [skipn].
  rewrite firstn_map.
  rewrite tie_BytesToUint32_proof; [reflexivity | | rewrite firstn_length; lia | rewrite firstn_length; lia].
  apply Forall_firstn_N. exact Hb.
Qed.

(* ShardBits.ShardIds: `for i := ShardId(0); i < TotalShardsCount; i++ { if b.HasShardId(i) { ret = append(ret, i) } }` *)
Lemma ShardIds_loop_tie : forall (b : N) (k i fuel : nat) (acc : list Z),
  (i + k = 14)%nat -> (k + 1 <= fuel)%nat ->
  Funcs.ShardBits_ShardIds_loop1 fuel (Z.of_N b) acc (Z.of_nat i) =
  Some (acc ++ map Z.of_N (filter (EcBalance.has b) (map N.of_nat (seq i k)))).
Proof.
  intros b. induction k as [|k IH]; intros i fuel acc Hik Hf; (destruct fuel as [|f]; [lia|]);
    cbn [Funcs.ShardBits_ShardIds_loop1].
  - replace (Z.of_nat i <? 14) with false by (symmetry; apply Z.ltb_ge; lia).
    cbn [seq map filter]. rewrite app_nil_r. reflexivity.
  - replace (Z.of_nat i <? 14) with true by (symmetry; apply Z.ltb_lt; lia).
    rewrite <- (nat_N_Z i) at 1. rewrite tie_ShardBits_HasShardId_proof by lia.
    rewrite (wrap_u8_id (Z.of_nat i + 1)) by lia.
    replace (Z.of_nat i + 1) with (Z.of_nat (S i)) by lia.
    cbn [seq map filter].
    destruct (EcBalance.has b (N.of_nat i)).
    + rewrite IH by lia. cbn [map]. rewrite <- app_assoc. cbn [app]. rewrite nat_N_Z. reflexivity.
    + rewrite IH by lia. reflexivity.
Qed.

Lemma tie_ShardBits_ShardIds_proof : forall (b : N) (fuel : nat), (15 <= fuel)%nat ->
  Funcs.ShardBits_ShardIds fuel (Z.of_N b) = Some (map Z.of_N (EcBalance.shard_ids b)).
Proof.
  intros b fuel Hf. unfold Funcs.ShardBits_ShardIds.
  change 0 with (Z.of_nat 0). rewrite (ShardIds_loop_tie b 14 0) by lia. reflexivity.
Qed.
