(* Proofs about model/VolPlanner.v (C15), part 8: volume.fix.replication (repaired:
   planned copies are counted, a successful repair is not repeated). *)
From Coq Require Import List NArith ZArith Bool Arith Lia Permutation.
From SW Require Import model.VolPlanner proof.VolPlannerProofs proof.VolPlannerProofs2
  proof.VolPlannerProofs3 proof.VolPlannerProofs4 proof.VolPlannerProofs5 proof.VolPlannerProofs6.
Import ListNotations.

Lemma pick_from_in : forall rs best, In (pick_from best rs) (best :: rs).
Proof.
  induction rs as [|r rs IH]; intros best; cbn [pick_from]; [left; auto|].
  destruct (v_mtime (r_info best) <? v_mtime (r_info r))%N.
  - destruct (IH r) as [H|H]; [right; left; auto|right; right; auto].
  - destruct (IH best) as [H|H]; [left; auto|right; right; auto].
Qed.

Lemma mem_N_iff : forall x l, mem_N x l = true <-> In x l.
Proof.
  intros. unfold mem_N. rewrite existsb_exists. split.
  - intros [y [H1 H2]]. apply N.eqb_eq in H2. subst; auto.
  - intros H. exists x. split; auto. apply N.eqb_refl.
Qed.

Lemma remove_N_in : forall x l y, In y (remove_N x l) -> In y l.
Proof.
  induction l as [|a l IH]; intros y H; [destruct H|].
  cbn [remove_N] in H. destruct (a =? x)%N; [right; auto|]. destruct H as [<-|H]; [left; auto|right; auto].
Qed.

Lemma remove_N_nodup : forall x l, NoDup l -> NoDup (remove_N x l) /\ ~ In x (remove_N x l).
Proof.
  induction l as [|a l IH]; intros Hnd; [split; [constructor|intros []]|].
  inversion Hnd as [|? ? Hn Hd]; subst. cbn [remove_N].
  destruct (N.eqb_spec a x) as [E|E].
  - subst. auto.
  - destruct (IH Hd) as [H1 H2]. split.
    + constructor; auto. intro Hi. apply Hn. eapply remove_N_in; eauto.
    + intros [Hx|Hx]; auto.
Qed.

Lemma fix_src_in : forall s vid src, fix_src s vid = Some src -> In src (reps_of s vid).
Proof.
  intros s vid src H. unfold fix_src in H. destruct (reps_of s vid) as [|r0 rs']; [discriminate|].
  inversion H; subst. destruct (pick_from_in (r0 :: rs') r0) as [Hp|Hp]; [left; exact Hp|exact Hp].
Qed.

(* ---------- what fix_copy_ok says ---------- *)
Lemma fix_copy_facts : forall s planned vid from to, fix_copy_ok s planned vid from to = true ->
  exists src t, fix_src s vid = Some src /\ In src (reps_of s vid) /\ l_node (r_loc src) = from /\
    In t s /\ n_id t = to /\
    (0 < fix_free planned t (v_dt (r_info src)))%Z /\
    satisfy (rp_of_byte (v_rp (r_info src))) (locs (reps_of s vid)) (n_loc t) = true.
Proof.
  intros s planned vid from to H. unfold fix_copy_ok in H.
  destruct (fix_src s vid) as [src|] eqn:Es; [|discriminate].
  apply andb_true_iff in H. destruct H as [Hfrom H].
  destruct (find_node s to) as [t|] eqn:Et; [|discriminate].
  apply find_node_some in Et. destruct Et as [Ht Etid].
  apply andb_true_iff in H. destruct H as [Hd _]. unfold fix_dst_ok in Hd.
  apply andb_true_iff in Hd. destruct Hd as [Hfree Hsat]. apply Z.ltb_lt in Hfree.
  exists src, t. repeat split; auto.
  - apply fix_src_in; auto.
  - apply N.eqb_eq; auto.
Qed.

Lemma ids_ok_cons_cl : forall s w vid t, NoDup (map n_id s) -> WInv s w -> In t s ->
  ids_ok (n_loc t :: locs (w_reps w vid)).
Proof.
  intros s w vid t Hnd HW Ht. apply (ids_ok_incl (cl s)); [apply ids_ok_cl; auto|].
  intros x [<-|Hx]; [unfold cl; apply in_map; auto|].
  unfold locs in Hx. apply in_map_iff in Hx. destruct Hx as [r [<- Hr]]. apply (HW vid); auto.
Qed.

(* one repair copy, for a volume not yet touched by this run *)
Lemma copy_step_safe : forall s planned w vid from to,
  wf_snap s -> w_reps w vid = reps_of s vid ->
  fix_copy_ok s planned vid from to = true ->
  let pv := prop_step s w (Copy vid from to) in
  ok_coloc pv = true /\ ok_repair pv = true /\ ok_pres pv = true.
Proof.
  intros s planned w vid from to Hwf Hw H pv.
  destruct (fix_copy_facts _ _ _ _ _ H) as [src [t [_ [Hsrc [Efrom [Ht [Etid [_ Hsat]]]]]]]].
  destruct Hwf as [Hnd Hvids].
  pose proof (init_NodesOk s (conj Hnd Hvids) vid) as HN. cbn [init_world w_reps] in HN.
  pose proof (replica_at_unique _ _ HN Hsrc) as Hat. rewrite Efrom in Hat.
  assert (loc_of s to = n_loc t) as Etl by (rewrite <- Etid; apply loc_of_in; auto).
  assert (ids_ok (n_loc t :: locs (reps_of s vid))) as Hids.
  { apply (ids_ok_cons_cl s (init_world s) vid t); auto. apply init_WInv. }
  unfold pv. cbn [prop_step]. rewrite Hw, Hat. cbn [ok_coloc ok_repair ok_pres]. split; [|split].
  - destruct (holds (reps_of s vid) to) eqn:E; auto. apply holds_iff in E.
    exfalso. eapply satisfy_no_coloc; eauto. change (l_node (n_loc t)) with (n_id t). rewrite Etid. auto.
  - rewrite Etl. destruct (sub_placement _ (locs (reps_of s vid))) eqn:Es; auto. cbn [implb].
    apply sub_placement_iff. apply satisfy_SubP; auto. apply sub_placement_iff; auto.
  - (* the volume was not satisfied: satisfyReplicaPlacement refuses every copy otherwise *)
    rewrite (satisfy_not_valid _ _ _ Hids Hsat). reflexivity.
Qed.

Lemma copy_step_other : forall s w vid from to vid', vid' <> vid ->
  w_reps (apply_step s w (Copy vid from to)) vid' = w_reps w vid'.
Proof.
  intros. cbn [apply_step]. destruct (replica_at (w_reps w vid) from); [|reflexivity].
  cbn [w_reps]. apply upd1_neq; auto.
Qed.

(* ---------- every copy of an accepted plan is safe ---------- *)
Lemma fix_under_safe : forall s evs planned pending w,
  wf_snap s -> NoDup pending ->
  (forall vid, In vid pending -> w_reps w vid = reps_of s vid) ->
  fix_under_run s planned pending evs = true ->
  ok_coloc (prop_trace s w (fix_steps evs)) = true /\
  ok_repair (prop_trace s w (fix_steps evs)) = true /\
  ok_pres (prop_trace s w (fix_steps evs)) = true.
Proof.
  intros s evs. induction evs as [|e evs IH]; intros planned pending w Hwf Hnd Hw H.
  - cbn. auto.
  - destruct e as [vid|vid at_|vid from to|vid]; cbn [fix_under_run] in H; try discriminate.
    + (* FCopy *)
      apply andb_true_iff in H. destruct H as [H Hrec]. apply andb_true_iff in H. destruct H as [Hmem Hok].
      apply mem_N_iff in Hmem. destruct (remove_N_nodup vid pending Hnd) as [Hnd' Hnin].
      destruct (copy_step_safe s planned w vid from to Hwf (Hw vid Hmem) Hok) as [Hc [Hr Hp]].
      cbn [fix_steps flat_map app]. fold (fix_steps evs). rewrite prop_trace_cons.
      assert (forall vid', In vid' (remove_N vid pending) ->
                w_reps (apply_step s w (Copy vid from to)) vid' = reps_of s vid') as Hw'.
      { intros vid' Hv'. assert (vid' <> vid) as Hne by (intro; subst; auto).
        rewrite copy_step_other; auto. apply Hw. eapply remove_N_in; eauto. }
      destruct (IH _ _ _ Hwf Hnd' Hw' Hrec) as [Hc2 [Hr2 Hp2]].
      unfold v4_and. cbn [ok_coloc ok_repair ok_pres]. rewrite Hc, Hc2, Hr, Hr2, Hp, Hp2. auto.
    + (* FNoPlace *)
      apply andb_true_iff in H. destruct H as [H Hrec]. apply andb_true_iff in H. destruct H as [Hmem _].
      destruct (remove_N_nodup vid pending Hnd) as [Hnd' _].
      cbn [fix_steps flat_map app]. fold (fix_steps evs).
      apply (IH planned (remove_N vid pending) w); auto.
      intros vid' Hv'. apply Hw. eapply remove_N_in; eauto.
Qed.

Lemma take_overs_steps : forall evs a b, take_overs evs = (a, b) -> fix_steps evs = fix_steps b.
Proof.
  induction evs as [|e evs IH]; intros a b H; cbn [take_overs] in H.
  - inversion H; reflexivity.
  - destruct e; try (inversion H; reflexivity).
    destruct (take_overs evs) as [a' b'] eqn:E. inversion H; subst.
    cbn [fix_steps flat_map app]. fold (fix_steps evs). eapply IH; eauto.
Qed.

Lemma under_vids_nodup : forall s, NoDup (under_vids s).
Proof. intros. unfold under_vids. apply NoDup_filter. unfold all_vids. apply NoDup_nodup. Qed.

Lemma remove_at_length : forall at_ rs, holds rs at_ = true -> S (length (remove_at at_ rs)) = length rs.
Proof.
  induction rs as [|r rs IH]; intros H; [discriminate|].
  cbn [holds existsb] in H. cbn [remove_at]. destruct (l_node (r_loc r) =? at_)%N; [reflexivity|].
  cbn [orb] in H. cbn [length]. f_equal. apply IH. exact H.
Qed.

Lemma delete_ok_holds : forall rs at_, delete_ok rs at_ = true -> holds rs at_ = true.
Proof.
  intros rs at_ H. unfold delete_ok in H. apply existsb_exists in H. destruct H as [r [Hr H]].
  apply andb_true_iff in H. destruct H as [H _]. unfold holds. apply existsb_exists. exists r; auto.
Qed.

Lemma holds_replica_at : forall rs at_, holds rs at_ = true -> exists r, replica_at rs at_ = Some r.
Proof.
  intros rs at_ H. unfold holds in H. apply existsb_exists in H. destruct H as [r [Hr H]].
  unfold replica_at. destruct (find (fun r0 => (l_node (r_loc r0) =? at_)%N) rs) as [r'|] eqn:E; [eauto|].
  pose proof (find_none _ _ E r Hr) as Hn. cbn beta in Hn. congruence.
Qed.

Lemma existsb_false : forall {A} (f : A -> bool) l x, existsb f l = false -> In x l -> f x = false.
Proof.
  intros A f l x H Hx. destruct (f x) eqn:E; auto.
  assert (existsb f l = true) by (apply existsb_exists; exists x; auto). congruence.
Qed.

(* a clause that holds on the whole trace needs no excuse *)
Lemma excused_of_pres : forall trig s tr w, ok_pres (prop_trace s w tr) = true ->
  excused ok_pres trig s w tr = true.
Proof.
  intros trig s tr. induction tr as [|st tr IH]; intros w H; [reflexivity|].
  rewrite prop_trace_cons in H. unfold v4_and in H. cbn [ok_pres] in H.
  apply andb_true_iff in H. destruct H as [H1 H2].
  cbn [excused]. rewrite H1, (IH _ H2). reflexivity.
Qed.
Lemma excused_of_cap : forall trig s tr w, ok_cap (prop_trace s w tr) = true ->
  excused ok_cap trig s w tr = true.
Proof.
  intros trig s tr. induction tr as [|st tr IH]; intros w H; [reflexivity|].
  rewrite prop_trace_cons in H. unfold v4_and in H. cbn [ok_cap] in H.
  apply andb_true_iff in H. destruct H as [H1 H2].
  cbn [excused]. rewrite H1, (IH _ H2). reflexivity.
Qed.

Lemma fix_under_no_purge : forall s evs planned pending w,
  fix_under_run s planned pending evs = true ->
  all_steps purge_count_ok s w (fix_steps evs) = true.
Proof.
  intros s evs. induction evs as [|e evs IH]; intros planned pending w H; [reflexivity|].
  destruct e as [vid|vid at_|vid from to|vid]; cbn [fix_under_run] in H; try discriminate.
  - apply andb_true_iff in H. destruct H as [_ Hrec].
    cbn [fix_steps flat_map app]. fold (fix_steps evs). unfold all_steps. cbn [excused purge_count_ok orb andb].
    eapply IH; eauto.
  - apply andb_true_iff in H. destruct H as [_ Hrec].
    cbn [fix_steps flat_map app]. fold (fix_steps evs). eapply IH; eauto.
Qed.

(* volume.fix.replication (dry-run plan), any -retry.  The placement clause of a purge holds
   only outside the trigger of finding 3 (pickOneReplicaToDelete ranks by age alone). *)
Theorem fix_accepts_safe : forall s retry evs, wf_snap s -> fix_accepts s retry evs = true ->
  ok_coloc (prop_trace s (init_world s) (fix_steps evs)) = true /\
  ok_repair (prop_trace s (init_world s) (fix_steps evs)) = true /\
  excused ok_pres step_delete_trig s (init_world s) (fix_steps evs) = true /\
  all_steps purge_count_ok s (init_world s) (fix_steps evs) = true.
Proof.
  intros s retry evs Hwf H. unfold fix_accepts in H.
  destruct s as [|n0 s0] eqn:Es; [destruct evs; [cbn; auto|discriminate]|]. rewrite <- Es in *.
  destruct (take_overs evs) as [overs rest] eqn:Et. rewrite (take_overs_steps _ _ _ Et).
  apply andb_true_iff in H. destruct H as [_ H].
  destruct (over_vids s) as [|ov ovs] eqn:Eo.
  - destruct (fix_under_safe s rest (fun _ _ => 0%Z) (under_vids s) (init_world s)) as [Hc [Hr Hp]]; auto.
    { apply under_vids_nodup. }
    split; auto. split; auto. split; [apply excused_of_pres; auto|].
    eapply fix_under_no_purge; eauto.
  - destruct overs as [|v0 overs']; [discriminate|].
    destruct rest as [|[| vid at_ | |] [|? ?]]; try discriminate.
    apply andb_true_iff in H. destruct H as [H Hdel]. apply andb_true_iff in H. destruct H as [_ Hmem].
    apply mem_N_iff in Hmem.
    cbn [fix_steps flat_map app prop_trace]. unfold all_steps. cbn [excused]. unfold v4_and, v4_true.
    cbn [prop_step init_world w_reps step_delete_trig purge_count_ok].
    pose proof (delete_ok_holds _ _ Hdel) as Hh. destruct (holds_replica_at _ _ Hh) as [r Hr]. rewrite Hr.
    destruct (reps_of s vid) as [|r0 rs'] eqn:Er; [discriminate|].
    cbn [ok_coloc ok_repair ok_pres].
    assert (copy_count (rp_of_byte (v_rp (r_info r0))) <=? length (remove_at at_ (r0 :: rs')) = true) as Hcnt.
    { apply Nat.leb_le. pose proof (remove_at_length _ _ Hh) as Hl.
      assert (In vid (over_vids s)) as Hov by (rewrite Eo; exact Hmem).
      unfold over_vids in Hov. apply filter_In in Hov. destruct Hov as [_ Hov]. apply Nat.ltb_lt in Hov.
      rewrite Er in Hov. cbn [head_rp] in Hov. lia. }
    repeat split; auto.
    + (* placement: excused by the trigger, or really preserved *)
      rewrite andb_true_r. rewrite Hcnt. cbn [andb].
      destruct (delete_pres_trig (r0 :: rs')) eqn:Etr; [apply orb_true_r|]. rewrite orb_false_r.
      unfold delete_pres_trig in Etr. cbn [head_rp] in Etr.
      destruct (has_valid_subset (rp_of_byte (v_rp (r_info r0))) (locs (r0 :: rs'))) eqn:Eh; [|reflexivity].
      cbn [andb implb] in *.
      unfold delete_ok in Hdel. apply existsb_exists in Hdel. destruct Hdel as [x [Hx Hd]].
      apply andb_true_iff in Hd. destruct Hd as [Hat Hmin]. apply N.eqb_eq in Hat.
      pose proof (existsb_false _ _ x Etr Hx) as Hno. cbn beta in Hno.
      rewrite Hmin, Hat in Hno. cbn [andb] in Hno. apply negb_false_iff in Hno. exact Hno.
    + cbn [head_rp]. rewrite Hcnt. reflexivity.
Qed.

(* ---------- free slots by the true count ---------- *)
Local Open Scope Z_scope.
Definition counts_ok (s : snapshot) : Prop :=
  forall n dt d, In n s -> disk_of n dt = Some d -> Z.of_nat (length (vols_of_dt n dt)) <= d_count d.

Lemma counts_okb_ok : forall s, counts_okb s = true -> counts_ok s.
Proof.
  intros s H n dt d Hn Hd. unfold counts_okb in H. rewrite forallb_forall in H.
  specialize (H n Hn). rewrite forallb_forall in H.
  pose proof Hd as Hd'. unfold disk_of in Hd'. apply find_some in Hd'. destruct Hd' as [Hin E].
  apply N.eqb_eq in E. specialize (H d Hin). rewrite E, Hd in H. apply Z.leb_le in H. exact H.
Qed.

(* the planner's count of planned copies is the real change of occupancy *)
Definition OccInv (s : snapshot) (planned : N -> N -> Z) (w : world) : Prop :=
  (forall id dt, w_occ w id dt = w_occ (init_world s) id dt + planned id dt) /\
  (forall id dt, 0 <= planned id dt).

Lemma fix_under_cap : forall s evs planned pending w,
  wf_snap s -> counts_ok s -> OccInv s planned w ->
  (forall vid, In vid pending -> w_reps w vid = reps_of s vid) -> NoDup pending ->
  fix_under_run s planned pending evs = true ->
  ok_cap (prop_trace s w (fix_steps evs)) = true.
Proof.
  intros s evs. induction evs as [|e evs IH]; intros planned pending w Hwf Hcnt Hocc Hw Hnd H; [reflexivity|].
  destruct e as [vid|vid at_|vid from to|vid]; cbn [fix_under_run] in H; try discriminate.
  - (* FCopy *)
    apply andb_true_iff in H. destruct H as [H Hrec]. apply andb_true_iff in H. destruct H as [Hmem Hok].
    apply mem_N_iff in Hmem. destruct (remove_N_nodup vid pending Hnd) as [Hnd' Hnin].
    destruct (fix_copy_facts _ _ _ _ _ Hok) as [src [t [Esrc [Hsrc [Efrom [Ht [Etid [Hfree _]]]]]]]].
    rewrite Esrc in Hrec.
    pose proof Hwf as [Hndn Hvids].
    pose proof (init_NodesOk s Hwf vid) as HN. cbn [init_world w_reps] in HN.
    pose proof (replica_at_unique _ _ HN Hsrc) as Hat. rewrite Efrom in Hat.
    assert (replica_at (w_reps w vid) from = Some src) as Hat' by (rewrite (Hw vid Hmem); exact Hat).
    destruct Hocc as [Ho Hp].
    cbn [fix_steps flat_map app]. fold (fix_steps evs). rewrite prop_trace_cons.
    unfold v4_and. cbn [ok_cap]. apply andb_true_iff. split.
    + cbn [prop_step]. rewrite Hat'. cbn [ok_cap]. apply Z.ltb_lt.
      set (dt := v_dt (r_info src)) in *.
      rewrite Ho. cbn [init_world w_occ]. unfold max_of. rewrite <- Etid, find_node_in; auto.
      unfold fix_free, cap_free in Hfree. unfold cap_max.
      destruct (disk_of t dt) as [d|] eqn:Ed.
      * pose proof (Hcnt t dt d Ht Ed). lia.
      * pose proof (Hp (n_id t) dt). lia.
    + apply (IH (upd2 planned to (v_dt (r_info src)) 1) (remove_N vid pending)
                (apply_step s w (Copy vid from to))); auto.
      * split.
        -- intros id dt. cbn [apply_step]. rewrite Hat'. cbn [w_occ].
           destruct (N.eq_dec id to) as [E1|E1]; [destruct (N.eq_dec dt (v_dt (r_info src))) as [E2|E2]|].
           ++ subst id dt. rewrite !upd2_same, Ho. lia.
           ++ rewrite !upd2_other by (right; auto). apply Ho.
           ++ rewrite !upd2_other by (left; auto). apply Ho.
        -- intros id dt. destruct (N.eq_dec id to) as [E1|E1]; [destruct (N.eq_dec dt (v_dt (r_info src))) as [E2|E2]|].
           ++ subst id dt. rewrite upd2_same. pose proof (Hp to (v_dt (r_info src))). lia.
           ++ rewrite upd2_other by (right; auto). apply Hp.
           ++ rewrite upd2_other by (left; auto). apply Hp.
      * intros vid' Hv'. assert (vid' <> vid) as Hne by (intro; subst; auto).
        rewrite copy_step_other; auto. apply Hw. eapply remove_N_in; eauto.
  - (* FNoPlace *)
    apply andb_true_iff in H. destruct H as [H Hrec]. apply andb_true_iff in H. destruct H as [Hmem _].
    destruct (remove_N_nodup vid pending Hnd) as [Hnd' _].
    cbn [fix_steps flat_map app]. fold (fix_steps evs).
    apply (IH planned (remove_N vid pending) w); auto.
    intros vid' Hv'. apply Hw. eapply remove_N_in; eauto.
Qed.

Theorem fix_accepts_capacity : forall s retry evs, wf_snap s -> counts_okb s = true ->
  fix_accepts s retry evs = true ->
  ok_cap (prop_trace s (init_world s) (fix_steps evs)) = true.
Proof.
  intros s retry evs Hwf Hcnt H. unfold fix_accepts in H.
  destruct s as [|n0 s0] eqn:Es; [destruct evs; [reflexivity|discriminate]|]. rewrite <- Es in *.
  destruct (take_overs evs) as [overs rest] eqn:Et. rewrite (take_overs_steps _ _ _ Et).
  apply andb_true_iff in H. destruct H as [_ H].
  destruct (over_vids s) as [|ov ovs] eqn:Eo.
  - apply (fix_under_cap s rest (fun _ _ => 0) (under_vids s)); auto.
    + apply counts_okb_ok; auto.
    + split; intros; lia.
    + apply under_vids_nodup.
  - destruct overs as [|v0 overs']; [discriminate|].
    destruct rest as [|[| vid at_ | |] [|? ?]]; try discriminate.
    apply andb_true_iff in H. destruct H as [Hmem Hdel].
    cbn [fix_steps flat_map app prop_trace]. unfold v4_and, v4_true. cbn [prop_step init_world w_reps].
    pose proof (delete_ok_holds _ _ Hdel) as Hh. destruct (holds_replica_at _ _ Hh) as [r Hr]. rewrite Hr.
    destruct (reps_of s vid) as [|r0 rs']; [discriminate|]. reflexivity.
Qed.

(* the planner's own notion of capacity (always respected) *)
Theorem fix_copy_own_capacity : forall s planned vid from to, fix_copy_ok s planned vid from to = true ->
  exists src t, In src (reps_of s vid) /\ l_node (r_loc src) = from /\ In t s /\ n_id t = to /\
    0 < cap_free t (v_dt (r_info src)) - planned to (v_dt (r_info src)).
Proof.
  intros s planned vid from to H.
  destruct (fix_copy_facts _ _ _ _ _ H) as [src [t [_ [Hsrc [Efrom [Ht [Etid [Hfree _]]]]]]]].
  exists src, t. repeat split; auto. unfold fix_free in Hfree. rewrite Etid in Hfree. exact Hfree.
Qed.

Theorem balance_step_own_capacity : forall c st vid dt from to t,
  balance_step_ok c st vid dt from to = true -> find_cap c to = Some t ->
  0 < bc_max_total c -> bc_sel_total c <= bc_max_total c -> 0 < snd t ->
  nsel st t + 1 <= snd t.
Proof.
  intros c st vid dt from to t Hok Ht HM HS Hcap. unfold balance_step_ok in Hok.
  destruct (find_cap c from) as [f|] eqn:Ef; try rewrite Ht in Hok;
    destruct (find (fun x => (v_id x =? vid)%N) (b_sel st from)) as [v|] eqn:Ev; try discriminate.
  repeat (apply andb_true_iff in Hok; destruct Hok as [Hok ?]).
  match goal with X : next_fits c st t = true |- _ => rename X into Hfit end.
  unfold next_fits in Hfit. apply Z.leb_le in Hfit.
  assert (bc_sel_total c * snd t <= bc_max_total c * snd t) by nia.
  assert ((nsel st t + 1 - snd t) * bc_max_total c <= 0) by nia. nia.
Qed.
