(* Proofs about model/VolPlanner.v (C15), part 8: volume.fix.replication. *)
From Coq Require Import List NArith ZArith Bool Arith Lia Permutation.
From SW Require Import model.VolPlanner proof.VolPlannerProofs proof.VolPlannerProofs2
  proof.VolPlannerProofs3 proof.VolPlannerProofs4 proof.VolPlannerProofs5 proof.VolPlannerProofs6.
Import ListNotations.

Lemma pick_from_in : forall rs best, In (pick_from best rs) (best :: rs).
Proof.
  induction rs as [|r rs IH]; intros best; cbn [pick_from]; [left; auto|].
  destruct (v_mtime (r_info best) <? v_mtime (r_info r))%N.
  - destruct (IH r) as [H|H]; [right; left; auto|right; right; auto].
  - destruct (IH best) as [H|H]; [left; auto|right; right; auto].
Qed.

Lemma mem_N_iff : forall x l, mem_N x l = true <-> In x l.
Proof.
  intros. unfold mem_N. rewrite existsb_exists. split.
  - intros [y [H1 H2]]. apply N.eqb_eq in H2. subst; auto.
  - intros H. exists x. split; auto. apply N.eqb_refl.
Qed.

Lemma remove_N_in : forall x l y, In y (remove_N x l) -> In y l.
Proof.
  induction l as [|a l IH]; intros y H; [destruct H|].
  cbn [remove_N] in H. destruct (a =? x)%N; [right; auto|]. destruct H as [<-|H]; [left; auto|right; auto].
Qed.

Lemma remove_N_nodup : forall x l, NoDup l -> NoDup (remove_N x l) /\ ~ In x (remove_N x l).
Proof.
  induction l as [|a l IH]; intros Hnd; [split; [constructor|intros []]|].
  inversion Hnd as [|? ? Hn Hd]; subst. cbn [remove_N].
  destruct (N.eqb_spec a x) as [E|E].
  - subst. auto.
  - destruct (IH Hd) as [H1 H2]. split.
    + constructor; auto. intro Hi. apply Hn. eapply remove_N_in; eauto.
    + intros [Hx|Hx]; auto.
Qed.

(* ---------- what fix_copy_ok says ---------- *)
Lemma fix_copy_facts : forall s vid from to, fix_copy_ok s vid from to = true ->
  exists src t, In src (reps_of s vid) /\ l_node (r_loc src) = from /\
    In t s /\ n_id t = to /\
    (0 <? cap_free t (v_dt (r_info src)))%Z = true /\
    satisfy (rp_of_byte (v_rp (r_info src))) (locs (reps_of s vid)) (n_loc t) = true.
Proof.
  intros s vid from to H. unfold fix_copy_ok in H.
  destruct (reps_of s vid) as [|r0 rs'] eqn:E; [discriminate|].
  apply andb_true_iff in H. destruct H as [Hfrom H].
  destruct (find_node s to) as [t|] eqn:Et; [|discriminate].
  apply find_node_some in Et. destruct Et as [Ht Etid].
  apply andb_true_iff in H. destruct H as [Hd _]. unfold fix_dst_ok in Hd.
  apply andb_true_iff in Hd. destruct Hd as [Hfree Hsat].
  exists (pick_from r0 (r0 :: rs')), t. repeat split; auto.
  - destruct (pick_from_in (r0 :: rs') r0) as [Hp|Hp]; [rewrite <- Hp; left; auto|exact Hp].
  - apply N.eqb_eq; auto.
Qed.

Lemma replica_at_app : forall rs extra r id, replica_at rs id = Some r -> replica_at (rs ++ extra) id = Some r.
Proof.
  induction rs as [|a rs IH]; intros extra r id H; [discriminate|].
  unfold replica_at in *. cbn [app find] in *. destruct (l_node (r_loc a) =? id)%N; auto.
Qed.

Lemma ids_ok_cons_cl : forall s w vid t, NoDup (map n_id s) -> WInv s w -> In t s ->
  ids_ok (n_loc t :: locs (w_reps w vid)).
Proof.
  intros s w vid t Hnd HW Ht. apply (ids_ok_incl (cl s)); [apply ids_ok_cl; auto|].
  intros x [<-|Hx]; [unfold cl; apply in_map; auto|].
  unfold locs in Hx. apply in_map_iff in Hx. destruct Hx as [r [<- Hr]]. apply (HW vid); auto.
Qed.

(* one repair copy, for a volume not yet touched by this run *)
Lemma copy_step_safe : forall s w vid from to,
  wf_snap s -> w_reps w vid = reps_of s vid ->
  fix_copy_ok s vid from to = true ->
  let pv := prop_step s w (Copy vid from to) in
  ok_coloc pv = true /\ ok_repair pv = true /\ ok_pres pv = true.
Proof.
  intros s w vid from to Hwf Hw H pv.
  destruct (fix_copy_facts _ _ _ _ H) as [src [t [Hsrc [Efrom [Ht [Etid [_ Hsat]]]]]]].
  destruct Hwf as [Hnd Hvids].
  pose proof (init_NodesOk s (conj Hnd Hvids) vid) as HN. cbn [init_world w_reps] in HN.
  pose proof (replica_at_unique _ _ HN Hsrc) as Hat. rewrite Efrom in Hat.
  assert (loc_of s to = n_loc t) as Etl by (rewrite <- Etid; apply loc_of_in; auto).
  assert (ids_ok (n_loc t :: locs (reps_of s vid))) as Hids.
  { apply (ids_ok_cons_cl s (init_world s) vid t); auto. apply init_WInv. }
  unfold pv. cbn [prop_step]. rewrite Hw, Hat. cbn [ok_coloc ok_repair ok_pres]. split; [|split; auto].
  - destruct (holds (reps_of s vid) to) eqn:E; auto. apply holds_iff in E.
    exfalso. eapply satisfy_no_coloc; eauto. change (l_node (n_loc t)) with (n_id t). rewrite Etid. auto.
  - rewrite Etl. destruct (sub_placement _ (locs (reps_of s vid))) eqn:Es; auto. cbn [implb].
    apply sub_placement_iff. apply satisfy_SubP; auto. apply sub_placement_iff; auto.
Qed.

(* ---------- the run without -retry: every copy is safe ---------- *)
Lemma fix_under_safe : forall s evs pending cur w,
  wf_snap s -> (cur = None \/ exists v, cur = Some (v, 0)) -> NoDup pending ->
  (forall vid, In vid pending -> w_reps w vid = reps_of s vid) ->
  fix_under_run s 0 pending cur evs = true ->
  ok_coloc (prop_trace s w (fix_steps evs)) = true /\
  ok_repair (prop_trace s w (fix_steps evs)) = true /\
  ok_pres (prop_trace s w (fix_steps evs)) = true.
Proof.
  intros s evs. induction evs as [|e evs IH]; intros pending cur w Hwf Hcur Hnd Hw H.
  - cbn. auto.
  - cbn [fix_under_run] in H. apply andb_true_iff in H. destruct H as [Hok H].
    assert (mem_N (fev_vid e) pending = true /\
            fix_under_run s 0 (remove_N (fev_vid e) pending) (Some (fev_vid e, 0)) evs = true) as [Hmem Hrec].
    { destruct Hcur as [->|[v ->]]; apply andb_true_iff in H; exact H. }
    apply mem_N_iff in Hmem. destruct (remove_N_nodup (fev_vid e) pending Hnd) as [Hnd' Hnin].
    destruct e as [vid|vid at_|vid from to|vid]; try discriminate; cbn [fev_vid] in *.
    + (* FCopy *)
      destruct (copy_step_safe s w vid from to Hwf (Hw vid Hmem) Hok) as [Hc [Hr Hp]].
      cbn [fix_steps flat_map app]. fold (fix_steps evs). rewrite prop_trace_cons.
      destruct (IH (remove_N vid pending) (Some (vid, 0)) (apply_step s w (Copy vid from to)))
        as [Hc2 [Hr2 Hp2]]; auto.
      { right. exists vid. reflexivity. }
      { intros vid' Hv'. assert (vid' <> vid) as Hne by (intro; subst; auto).
        cbn [apply_step]. destruct (replica_at (w_reps w vid) from); [|apply Hw; eapply remove_N_in; eauto].
        cbn [w_reps]. rewrite upd1_neq; auto. apply Hw. eapply remove_N_in; eauto. }
      unfold v4_and. cbn [ok_coloc ok_repair ok_pres]. rewrite Hc, Hc2, Hr, Hr2, Hp, Hp2. auto.
    + (* FNoPlace *)
      cbn [fix_steps flat_map app]. fold (fix_steps evs).
      apply (IH (remove_N vid pending) (Some (vid, 0)) w); auto.
      * right. exists vid. reflexivity.
      * intros vid' Hv'. apply Hw. eapply remove_N_in; eauto.
Qed.

Lemma take_overs_steps : forall evs a b, take_overs evs = (a, b) -> fix_steps evs = fix_steps b.
Proof.
  induction evs as [|e evs IH]; intros a b H; cbn [take_overs] in H.
  - inversion H; reflexivity.
  - destruct e; try (inversion H; reflexivity).
    destruct (take_overs evs) as [a' b'] eqn:E. inversion H; subst.
    cbn [fix_steps flat_map app]. fold (fix_steps evs). eapply IH; eauto.
Qed.

Lemma under_vids_nodup : forall s, NoDup (under_vids s).
Proof. intros. unfold under_vids. apply NoDup_filter. unfold all_vids. apply NoDup_nodup. Qed.

Lemma remove_at_length : forall at_ rs, holds rs at_ = true -> S (length (remove_at at_ rs)) = length rs.
Proof.
  induction rs as [|r rs IH]; intros H; [discriminate|].
  cbn [holds existsb] in H. cbn [remove_at]. destruct (l_node (r_loc r) =? at_)%N; [reflexivity|].
  cbn [orb] in H. cbn [length]. f_equal. apply IH. exact H.
Qed.

Lemma delete_ok_holds : forall rs at_, delete_ok rs at_ = true -> holds rs at_ = true.
Proof.
  intros rs at_ H. unfold delete_ok in H. apply existsb_exists in H. destruct H as [r [Hr H]].
  apply andb_true_iff in H. destruct H as [H _]. unfold holds. apply existsb_exists. exists r; auto.
Qed.

Lemma holds_replica_at : forall rs at_, holds rs at_ = true -> exists r, replica_at rs at_ = Some r.
Proof.
  intros rs at_ H. unfold holds in H. apply existsb_exists in H. destruct H as [r [Hr H]].
  unfold replica_at. destruct (find (fun r0 => (l_node (r_loc r0) =? at_)%N) rs) as [r'|] eqn:E; [eauto|].
  pose proof (find_none _ _ E r Hr) as Hn. cbn beta in Hn. congruence.
Qed.

(* volume.fix.replication without -retry (dry-run plan) *)
Theorem fix_accepts_safe : forall s evs, wf_snap s -> fix_accepts s 0 evs = true ->
  ok_coloc (prop_trace s (init_world s) (fix_steps evs)) = true /\
  ok_repair (prop_trace s (init_world s) (fix_steps evs)) = true /\
  ok_pres (prop_trace s (init_world s) (fix_steps evs)) = true.
Proof.
  intros s evs Hwf H. unfold fix_accepts in H.
  destruct s as [|n0 s0] eqn:Es; [destruct evs; [cbn; auto|discriminate]|]. rewrite <- Es in *.
  destruct (take_overs evs) as [overs rest] eqn:Et. rewrite (take_overs_steps _ _ _ Et).
  apply andb_true_iff in H. destruct H as [_ H].
  destruct (over_vids s) as [|ov ovs] eqn:Eo.
  - apply (fix_under_safe s rest (under_vids s) None); auto. apply under_vids_nodup.
  - destruct rest as [|[| vid at_ | |] [|? ?]]; try discriminate.
    apply andb_true_iff in H. destruct H as [Hmem Hdel]. apply mem_N_iff in Hmem.
    cbn [fix_steps flat_map app prop_trace]. unfold v4_and, v4_true. cbn [prop_step init_world w_reps].
    pose proof (delete_ok_holds _ _ Hdel) as Hh. destruct (holds_replica_at _ _ Hh) as [r Hr]. rewrite Hr.
    destruct (reps_of s vid) as [|r0 rs'] eqn:Er; [discriminate|].
    cbn [ok_coloc ok_repair ok_pres]. repeat split; auto. rewrite andb_true_r. apply Nat.leb_le.
    pose proof (remove_at_length _ _ Hh) as Hl.
    assert (In vid (over_vids s)) as Hov by (rewrite Eo; exact Hmem).
    unfold over_vids in Hov. apply filter_In in Hov. destruct Hov as [_ Hov]. apply Nat.ltb_lt in Hov.
    rewrite Er in Hov. cbn [head_rp] in Hov. lia.
Qed.

(* ---------- free slots ---------- *)
Lemma fix_under_len : forall s retry evs pending cur, fix_under_run s retry pending cur evs = true ->
  length evs = (retry + 1) * length pending + match cur with Some (_, k) => k | None => 0 end.
Proof.
  intros s retry evs. induction evs as [|e evs IH]; intros pending cur H.
  - cbn [fix_under_run] in H. destruct pending; [|discriminate]. destruct cur as [[v [|k]]|]; try discriminate; cbn; lia.
  - cbn [fix_under_run] in H. apply andb_true_iff in H. destruct H as [_ H].
    assert (mem_N (fev_vid e) pending = true -> fix_under_run s retry (remove_N (fev_vid e) pending) (Some (fev_vid e, retry)) evs = true ->
            length (e :: evs) = (retry + 1) * length pending) as Hnew.
    { intros Hm Hr. apply IH in Hr. cbn [length]. rewrite Hr.
      assert (S (length (remove_N (fev_vid e) pending)) = length pending) as Hl.
      { clear - Hm. apply mem_N_iff in Hm. induction pending as [|a l IHl]; [destruct Hm|].
        cbn [remove_N]. destruct (N.eqb_spec a (fev_vid e)); [reflexivity|].
        cbn [length]. f_equal. apply IHl. destruct Hm; [congruence|auto]. }
      nia. }
    destruct cur as [[v [|k]]|]; cbn beta iota in H; apply andb_true_iff in H; destruct H as [H1 H2].
    + rewrite (Hnew H1 H2). lia.
    + apply IH in H2. cbn [length]. rewrite H2. lia.
    + rewrite (Hnew H1 H2). lia.
Qed.

Local Open Scope Z_scope.
Definition FixCap (s : snapshot) (w : world) (budget : nat) : Prop :=
  forall n dt, In n s -> 0 < cap_free n dt ->
    w_occ w (n_id n) dt + Z.of_nat budget <= max_of s (n_id n) dt.
Definition Prefixed (s : snapshot) (w : world) : Prop :=
  forall vid, exists extra, w_reps w vid = reps_of s vid ++ extra.

Lemma fix_under_cap : forall s retry evs pending cur w,
  wf_snap s -> FixCap s w (length evs) -> Prefixed s w ->
  fix_under_run s retry pending cur evs = true ->
  ok_cap (prop_trace s w (fix_steps evs)) = true.
Proof.
  intros s retry evs. induction evs as [|e evs IH]; intros pending cur w Hwf Hcap Hpre H; [reflexivity|].
  cbn [fix_under_run] in H. apply andb_true_iff in H. destruct H as [Hok H].
  assert (exists p' c', fix_under_run s retry p' c' evs = true) as [p' [c' Hrec]].
  { destruct cur as [[v [|k]]|]; apply andb_true_iff in H; destruct H; eauto. }
  destruct e as [vid|vid at_|vid from to|vid]; try discriminate.
  - (* FCopy *)
    destruct (fix_copy_facts _ _ _ _ Hok) as [src [t [Hsrc [Efrom [Ht [Etid [Hfree _]]]]]]].
    apply Z.ltb_lt in Hfree. destruct Hwf as [Hnd Hvids].
    pose proof (init_NodesOk s (conj Hnd Hvids) vid) as HN. cbn [init_world w_reps] in HN.
    pose proof (replica_at_unique _ _ HN Hsrc) as Hat. rewrite Efrom in Hat.
    destruct (Hpre vid) as [extra Hex].
    assert (replica_at (w_reps w vid) from = Some src) as Hat' by (rewrite Hex; apply replica_at_app; auto).
    cbn [fix_steps flat_map app]. fold (fix_steps evs). rewrite prop_trace_cons.
    unfold v4_and. cbn [ok_cap]. apply andb_true_iff. split.
    + cbn [prop_step]. rewrite Hat'. cbn [ok_cap]. apply Z.ltb_lt.
      pose proof (Hcap t _ Ht Hfree) as Hi. cbn [length] in Hi. rewrite Etid in Hi. lia.
    + apply (IH p' c' _ (conj Hnd Hvids)); [ | |exact Hrec].
      * unfold FixCap; intros n dt Hn Hf. pose proof (Hcap n dt Hn Hf) as Hi. cbn [length] in Hi.
        cbn [apply_step]. rewrite Hat'. cbn [w_occ].
        destruct (N.eq_dec (n_id n) to) as [E1|E1]; [destruct (N.eq_dec dt (v_dt (r_info src))) as [E2|E2]|].
        -- subst dt. rewrite E1, upd2_same. rewrite E1 in Hi. lia.
        -- rewrite upd2_other by (right; auto). lia.
        -- rewrite upd2_other by (left; auto). lia.
      * unfold Prefixed; intros vid'. cbn [apply_step]. rewrite Hat'. cbn [w_reps].
        destruct (N.eq_dec vid' vid) as [->|Hne].
        -- rewrite upd1_eq, Hex. rewrite <- app_assoc. eauto.
        -- rewrite upd1_neq; auto.
  - (* FNoPlace *)
    cbn [fix_steps flat_map app]. fold (fix_steps evs).
    apply (IH p' c'); auto. unfold FixCap; intros n dt Hn Hf. pose proof (Hcap n dt Hn Hf) as Hi. cbn [length] in Hi. lia.
Qed.

Lemma cap_free_dt : forall s n dt, In n s -> 0 < cap_free n dt -> In dt (all_dts s).
Proof.
  intros s n dt Hn H. unfold cap_free, disk_of in H.
  destruct (find (fun d => (d_type d =? dt)%N) (n_disks n)) as [d|] eqn:E; [|lia].
  apply find_some in E. destruct E as [Hd E]. apply N.eqb_eq in E.
  unfold all_dts. apply nodup_In. apply in_flat_map. exists n. split; auto. rewrite <- E. apply in_map; auto.
Qed.

Theorem fix_accepts_capacity : forall s retry evs, wf_snap s ->
  trig_fix_cap s retry = false -> fix_accepts s retry evs = true ->
  ok_cap (prop_trace s (init_world s) (fix_steps evs)) = true.
Proof.
  intros s retry evs Hwf Htr H. unfold fix_accepts in H.
  destruct s as [|n0 s0] eqn:Es; [destruct evs; [reflexivity|discriminate]|]. rewrite <- Es in *.
  destruct (take_overs evs) as [overs rest] eqn:Et. rewrite (take_overs_steps _ _ _ Et).
  apply andb_true_iff in H. destruct H as [_ H].
  destruct (over_vids s) as [|ov ovs] eqn:Eo.
  - apply (fix_under_cap s retry rest (under_vids s) None); auto.
    + pose proof (fix_under_len _ _ _ _ _ H) as Hl. rewrite Hl, Nat.add_0_r.
      unfold FixCap; intros n dt Hn Hf. unfold max_of. rewrite find_node_in; [|apply Hwf|auto].
      unfold trig_fix_cap in Htr.
      destruct (Z.ltb_spec (cap_max n dt) (w_occ (init_world s) (n_id n) dt + Z.of_nat ((retry + 1) * length (under_vids s)))) as [Hlt|Hge]; auto.
      exfalso. assert (existsb (fun n => existsb (fun dt => (0 <? cap_free n dt) &&
         (cap_max n dt <? w_occ (init_world s) (n_id n) dt + Z.of_nat ((retry + 1) * length (under_vids s))))
         (all_dts s)) s = true); [|congruence].
      apply existsb_exists. exists n. split; auto. apply existsb_exists. exists dt.
      split; [eapply cap_free_dt; eauto|]. apply andb_true_iff. split; [apply Z.ltb_lt|apply Z.ltb_lt]; auto.
    + unfold Prefixed; intros vid. exists []. cbn [init_world w_reps]. rewrite app_nil_r. reflexivity.
  - destruct rest as [|[| vid at_ | |] [|? ?]]; try discriminate.
    apply andb_true_iff in H. destruct H as [Hmem Hdel].
    cbn [fix_steps flat_map app prop_trace]. unfold v4_and, v4_true. cbn [prop_step init_world w_reps].
    pose proof (delete_ok_holds _ _ Hdel) as Hh. destruct (holds_replica_at _ _ Hh) as [r Hr]. rewrite Hr.
    destruct (reps_of s vid) as [|r0 rs']; [discriminate|]. reflexivity.
Qed.

(* the planner's own notion of capacity (always respected) *)
Theorem fix_copy_own_capacity : forall s vid from to, fix_copy_ok s vid from to = true ->
  exists src t, In src (reps_of s vid) /\ l_node (r_loc src) = from /\ find_node s to = Some t /\
    0 < cap_free t (v_dt (r_info src)).
Proof.
  intros s vid from to H. unfold fix_copy_ok in H.
  destruct (reps_of s vid) as [|r0 rs'] eqn:E; [discriminate|].
  apply andb_true_iff in H. destruct H as [Hfrom H].
  destruct (find_node s to) as [t|] eqn:Et; [|discriminate].
  apply andb_true_iff in H. destruct H as [Hd _]. unfold fix_dst_ok in Hd.
  apply andb_true_iff in Hd. destruct Hd as [Hfree _]. apply Z.ltb_lt in Hfree.
  exists (pick_from r0 (r0 :: rs')), t. repeat split; auto.
  - destruct (pick_from_in (r0 :: rs') r0) as [Hp|Hp]; [rewrite <- Hp; left; auto|exact Hp].
  - apply N.eqb_eq; auto.
Qed.

Theorem balance_step_own_capacity : forall c st vid dt from to t,
  balance_step_ok c st vid dt from to = true -> find_cap c to = Some t ->
  0 < bc_max_total c -> bc_sel_total c <= bc_max_total c -> 0 < snd t ->
  nsel st t + 1 <= snd t.
Proof.
  intros c st vid dt from to t Hok Ht HM HS Hcap. unfold balance_step_ok in Hok.
  destruct (find_cap c from) as [f|] eqn:Ef; try rewrite Ht in Hok;
    destruct (find (fun x => (v_id x =? vid)%N) (b_sel st from)) as [v|] eqn:Ev; try discriminate.
  repeat (apply andb_true_iff in Hok; destruct Hok as [Hok ?]).
  match goal with X : next_fits c st t = true |- _ => rename X into Hfit end.
  unfold next_fits in Hfit. apply Z.leb_le in Hfit.
  apply find_cap_some in Ht. destruct Ht as [Ht _].
  assert (bc_sel_total c * snd t <= bc_max_total c * snd t) by nia.
  assert ((nsel st t + 1 - snd t) * bc_max_total c <= 0) by nia. nia.
Qed.
