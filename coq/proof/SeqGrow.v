(* Proofs about model/SeqGrow.v: concurrent GrowByCountAndType requests -- C13.
   Under the lock discipline of the code ([gstep true]: NextVolumeId's read and the
   raft apply of a request happen while that request holds VolumeGrowth.accessLock)
   volume ids handed out are strictly increasing, hence unique, for EVERY
   interleaving of the requests' steps; with a lock that does not cover that
   region ([gstep false]) the same id is handed out twice. *)
From Coq Require Import List NArith Bool Arith Lia Sorted.
From SW Require Import model.Seq model.SeqGrow proof.SeqProofs.
Import ListNotations.
Local Open Scope N_scope.

Lemma gev_okb_spec : forall e1 e2, gev_okb e1 e2 = true <-> gev_ok e1 e2.
Proof.
  intros [a1 v1|a1 v1|v1] [a2 v2|a2 v2|v2]; simpl; try tauto; try (split; auto; fail);
    try apply N.ltb_lt; apply N.leb_le.
Qed.

Lemma gtrace_okb_spec : forall tr, gtrace_okb tr = true <-> ForallOrdPairs gev_ok tr.
Proof.
  induction tr as [|e tr IH]; simpl.
  - split; [constructor|auto].
  - rewrite andb_true_iff, IH, forallb_forall. split.
    + intros [H1 H2]. constructor; auto. apply Forall_forall. intros x Hx. apply gev_okb_spec. auto.
    + intros H. inversion H as [|? ? Hf Hp]; subst. split; auto.
      intros x Hx. apply gev_okb_spec. rewrite Forall_forall in Hf. auto.
Qed.

(* ---- list cells ---- *)
Lemma nth_setnth : forall {A} (l : list A) i j x d,
  nth j (setnth l i x) d = if Nat.eqb i j && Nat.ltb i (length l) then x else nth j l d.
Proof.
  intros A l i j x d. destruct (Nat.eqb i j) eqn:E; simpl.
  - apply Nat.eqb_eq in E. subst j. destruct (Nat.ltb i (length l)) eqn:L.
    + apply Nat.ltb_lt in L. apply nth_setnth_eq. exact L.
    + apply Nat.ltb_ge in L. rewrite !nth_overflow; auto. rewrite length_setnth. exact L.
  - apply Nat.eqb_neq in E. apply nth_setnth_neq. exact E.
Qed.

Lemma gpc_gset : forall s mx h a q b,
  gpc_of (gset s mx h a q) b = if Nat.eqb a b && Nat.ltb a (length (gpcs s)) then q else gpc_of s b.
Proof. intros. unfold gpc_of, gset. simpl. apply nth_setnth. Qed.

Lemma gpc_in_range : forall s a, gpc_of s a <> GIdle -> (a < length (gpcs s))%nat.
Proof.
  intros s a H. destruct (Nat.ltb a (length (gpcs s))) eqn:L; [apply Nat.ltb_lt; exact L|].
  apply Nat.ltb_ge in L. exfalso. apply H. unfold gpc_of. apply nth_overflow. exact L.
Qed.

Lemma nth_repeat_idle : forall n a, nth a (repeat GIdle n) GIdle = GIdle.
Proof. induction n as [|n IH]; intros [|a]; simpl; auto. Qed.

(* ---- the invariant of the locked machine ---- *)
Definition busy (q : gpc) : bool := match q with GHold _ | GProp _ _ => true | _ => false end.

Record GInv (s : gst) (past : list gev) : Prop := {
  gi_ev : forall e, In e past ->
          match e with EGrant _ v => v <= gmax s | ESeen v => v <= gmax s | EProp _ v => v <= gmax s + 1 end;
  gi_excl : forall b, busy (gpc_of s b) = true -> gholder s = Some b;
  gi_pend : forall b n next, gpc_of s b = GProp n next ->
            next <= gmax s + 1 /\
            forall e, In e past -> match e with EGrant _ v => v < next | EProp _ v => v <= next | ESeen _ => True end }.

Lemma ginit_inv : forall nact m0, GInv (ginit nact m0) [].
Proof.
  intros nact m0. constructor; simpl.
  - intros e [].
  - intros b. unfold gpc_of. simpl. rewrite nth_repeat_idle. simpl. discriminate.
  - intros b n next. unfold gpc_of. simpl. rewrite nth_repeat_idle. discriminate.
Qed.

Ltac cell H := rewrite gpc_gset in H;
  match type of H with context [Nat.eqb ?a ?b && ?c] =>
    let E := fresh "E" in destruct (Nat.eqb a b && c) eqn:E end.

Lemma gstep_ok : forall s past o, GInv s past -> gfit_guard s o = true ->
  match snd (gstep true s o) with
  | Some x => GInv (fst (gstep true s o)) (x :: past) /\ (forall old, In old past -> gev_ok old x)
  | None => GInv (fst (gstep true s o)) past
  end.
Proof.
  intros s past o HI Hg. pose proof HI as [Hev Hex Hpd].
  destruct o as [a n|a|a|a r|v]; simpl in *.
  - (* GStart *)
    destruct (gpc_of s a) eqn:Ea; simpl; try exact HI.
    constructor; simpl; auto.
    + intros b Hb. cell Hb; [discriminate|auto].
    + intros b n0 next Hb. cell Hb; [discriminate|eauto].
  - (* GLock *)
    destruct (gpc_of s a) as [|n|n|n next] eqn:Ea; simpl; try exact HI.
    unfold lock_busy. destruct (gholder s) as [h|] eqn:Eh; simpl; [exact HI|].
    destruct (n =? 0) eqn:En; simpl.
    + constructor; simpl; auto.
      * intros b Hb. cell Hb; [discriminate|]. specialize (Hex b Hb). congruence.
      * intros b n0 next Hb. cell Hb; [discriminate|eauto].
    + constructor; simpl; auto.
      * intros b Hb. cell Hb.
        -- apply andb_true_iff in E. destruct E as [E _]. apply Nat.eqb_eq in E. subst; auto.
        -- specialize (Hex b Hb). congruence.
      * intros b n0 next Hb. cell Hb; [discriminate|eauto].
  - (* GRead *)
    destruct (gpc_of s a) as [|n|n|n next] eqn:Ea; simpl; try exact HI.
    apply N.ltb_lt in Hg.
    assert (Hm : (gmax s + 1) mod two32 = gmax s + 1) by (apply N.mod_small; lia).
    rewrite Hm.
    assert (Ha : gholder s = Some a) by (apply Hex; rewrite Ea; reflexivity).
    assert (Hlt : (a < length (gpcs s))%nat) by (apply gpc_in_range; rewrite Ea; discriminate).
    split.
    + constructor; simpl.
      * intros e [He|He]; [subst; lia|]. apply Hev; auto.
      * intros b Hb. cell Hb.
        -- apply andb_true_iff in E. destruct E as [E _]. apply Nat.eqb_eq in E. subst; auto.
        -- auto.
      * intros b n0 next Hb. cell Hb.
        -- inversion Hb; subst. split; [lia|].
           intros e [He|He]; [subst; lia|]. specialize (Hev e He). destruct e; auto; lia.
        -- (* another request inside Do would hold the lock too *)
           assert (Hb' : gholder s = Some b) by (apply Hex; rewrite Hb; reflexivity).
           assert (a = b) by congruence. subst b. congruence.
    + intros old Ho. specialize (Hev old Ho). destruct old; simpl; auto; lia.
  - (* GApply *)
    destruct (gpc_of s a) as [|n|n|n next] eqn:Ea; simpl; try exact HI.
    assert (Ha : gholder s = Some a) by (apply Hex; rewrite Ea; reflexivity).
    assert (Hlt : (a < length (gpcs s))%nat) by (apply gpc_in_range; rewrite Ea; discriminate).
    destruct (Hpd a n next Ea) as [Hn Hp].
    (* nobody else is busy *)
    assert (Hothers : forall b, Nat.eqb a b && Nat.ltb a (length (gpcs s)) = false -> busy (gpc_of s b) = false).
    { intros b E. destruct (busy (gpc_of s b)) eqn:Eb; auto.
      assert (gholder s = Some b) by (apply Hex; auto). assert (a = b) by congruence. subst b.
      rewrite Nat.eqb_refl in E. apply Nat.ltb_lt in Hlt. rewrite Hlt in E. discriminate. }
    assert (Hrel : forall old, In old past -> gev_ok old (EGrant a next)).
    { intros old Ho. specialize (Hp old Ho). destruct old; simpl; auto. }
    assert (Hev' : forall e, In e (EGrant a next :: past) ->
              match e with EGrant _ v => v <= N.max (gmax s) next | ESeen v => v <= N.max (gmax s) next
                         | EProp _ v => v <= N.max (gmax s) next + 1 end).
    { intros e [He|He]; [subst; lia|]. specialize (Hev e He). destruct e; lia. }
    assert (Hidle : forall mx h, GInv (gset s mx h a GIdle) past -> True) by auto.
    destruct r; simpl.
    + (* GOk *)
      destruct (n - 1 =? 0) eqn:En; simpl.
      * split; auto. constructor; simpl; auto.
        -- intros b Hb. cell Hb; [discriminate|]. rewrite (Hothers b E) in Hb. discriminate.
        -- intros b n0 nx Hb. cell Hb; [discriminate|]. pose proof (Hothers b E) as Hq. rewrite Hb in Hq. discriminate.
      * split; auto. constructor; simpl; auto.
        -- intros b Hb. cell Hb.
           ++ apply andb_true_iff in E. destruct E as [E _]. apply Nat.eqb_eq in E. subst; auto.
           ++ rewrite (Hothers b E) in Hb. discriminate.
        -- intros b n0 nx Hb. cell Hb; [discriminate|]. pose proof (Hothers b E) as Hq. rewrite Hb in Hq. discriminate.
    + (* GRaftErr *)
      constructor; simpl; auto.
      * intros b Hb. cell Hb; [discriminate|]. rewrite (Hothers b E) in Hb. discriminate.
      * intros b n0 nx Hb. cell Hb; [discriminate|]. pose proof (Hothers b E) as Hq. rewrite Hb in Hq. discriminate.
    + (* GAllocErr *)
      split; auto. constructor; simpl; auto.
      * intros b Hb. cell Hb; [discriminate|]. rewrite (Hothers b E) in Hb. discriminate.
      * intros b n0 nx Hb. cell Hb; [discriminate|]. pose proof (Hothers b E) as Hq. rewrite Hb in Hq. discriminate.
  - (* GHb *)
    split.
    + constructor; simpl.
      * intros e [He|He]; [subst; lia|]. specialize (Hev e He). destruct e; lia.
      * exact Hex.
      * intros b n next Hb. destruct (Hpd b n next Hb) as [H1 H2]. split; [lia|].
        intros e [He|He]; [subst; exact I|apply H2; exact He].
    + intros old Ho. destruct old; simpl; auto.
Qed.

Theorem grow_trace_ok : forall nact m0 sched, gfits true (ginit nact m0) sched = true ->
  ForallOrdPairs gev_ok (somes (snd (grow_run true (ginit nact m0) sched))).
Proof.
  intros nact m0 sched Hf. unfold grow_run, gfits in *.
  destruct (grun_ok _ _ _ (gstep true) gfit_guard gev_ok GInv gstep_ok sched _ [] (ginit_inv nact m0) Hf) as [H _].
  exact H.
Qed.

Lemma grants_sorted : forall l, ForallOrdPairs gev_ok (somes l) -> StronglySorted N.lt (grants l).
Proof.
  induction l as [|[[a v|a v|v]|] l IH]; simpl; intros H.
  - constructor.
  - inversion H; subst. auto.
  - inversion H as [|? ? Hf Hp]; subst. constructor; [apply IH; auto|].
    clear - Hf. induction l as [|[[a' v'|a' v'|v']|] l IHl]; simpl in *.
    + constructor.
    + inversion Hf; subst. auto.
    + inversion Hf; subst. constructor; auto.
    + inversion Hf; subst. auto.
    + auto.
  - inversion H; subst. auto.
  - auto.
Qed.

Theorem grow_sorted : forall nact m0 sched, gfits true (ginit nact m0) sched = true ->
  StronglySorted N.lt (grants (snd (grow_run true (ginit nact m0) sched))).
Proof. intros. apply grants_sorted. apply grow_trace_ok. auto. Qed.

Theorem grow_unique : forall nact m0 sched, gfits true (ginit nact m0) sched = true ->
  NoDup (grants (snd (grow_run true (ginit nact m0) sched))).
Proof. intros. apply sorted_nodup. apply grow_sorted. auto. Qed.

Lemma gstep_max_mono : forall lk s o, gmax s <= gmax (fst (gstep lk s o)).
Proof.
  intros lk s o. destruct o as [a n|a|a|a r|v]; simpl;
    try (destruct (gpc_of s a); simpl; try lia;
         repeat match goal with
                | |- context [match ?r with GOk => _ | GRaftErr => _ | GAllocErr => _ end] => destruct r
                | |- context [if ?c then _ else _] => destruct c
                end; simpl; lia).
  lia.
Qed.

(* ---- the lock must cover NextVolumeId: the schedule of seeded/C13-c ---- *)
Definition grow_wit : list gop :=
  [GStart 0 2; GStart 1 2; GLock 0; GLock 1; GRead 0; GRead 1; GApply 0 GOk; GApply 1 GOk;
   GRead 0; GRead 1; GApply 0 GOk; GApply 1 GOk].

Lemma grow_unlocked_refuted :
  exists sched, gfits false (ginit 2 3) sched = true /\
                grants (snd (grow_run false (ginit 2 3) sched)) = [4; 4; 5; 5] /\
                ~ NoDup (grants (snd (grow_run false (ginit 2 3) sched))).
Proof.
  exists grow_wit. split; [vm_compute; reflexivity|]. split; [vm_compute; reflexivity|].
  vm_compute. intro H. inversion H as [|? ? Hn _]; subst. apply Hn. left. reflexivity.
Qed.

(* the same steps on the locked machine: request 1 stays blocked on the lock
   until request 0 has returned *)
Example grow_example :
  let sched := grow_wit ++ [GLock 1; GRead 1; GHb 9; GApply 1 GOk; GRead 1; GApply 1 GAllocErr] in
  gfits true (ginit 2 3) sched = true /\
  somes (snd (grow_run true (ginit 2 3) sched)) =
    [EProp 0 4; EGrant 0 4; EProp 0 5; EGrant 0 5; EProp 1 6; ESeen 9; EGrant 1 6; EProp 1 10; EGrant 1 10] /\
  gallocs 1 sched (snd (grow_run true (ginit 2 3) sched)) = [(0%nat, 4); (0%nat, 5); (1%nat, 6); (1%nat, 10)].
Proof. repeat split; vm_compute; reflexivity. Qed.
