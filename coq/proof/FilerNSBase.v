(* Proofs about model/FilerNS.v (C18): paths, the flat store, well-formedness. *)
From Coq Require Import List NArith Bool String Arith Lia Permutation.
From SW Require Import model.FilerNS.
Import ListNotations.
Local Open Scope list_scope.

(* ================= paths ================= *)
Lemma path_eqb_spec : forall p q, reflect (p = q) (path_eqb p q).
Proof.
  induction p as [|a p IH]; destruct q as [|b q]; simpl; try (constructor; congruence).
  destruct (String.eqb_spec a b); simpl.
  - destruct (IH q); constructor; congruence.
  - constructor; congruence.
Qed.

Lemma path_eqb_refl : forall p, path_eqb p p = true.
Proof. intro p. destruct (path_eqb_spec p p); congruence. Qed.

Lemma path_eqb_sym : forall p q, path_eqb p q = path_eqb q p.
Proof. intros. destruct (path_eqb_spec p q), (path_eqb_spec q p); congruence. Qed.

Lemma strip_prefix_spec : forall p q r, strip_prefix p q = Some r <-> q = p ++ r.
Proof.
  induction p as [|a p IH]; intros q r; simpl.
  - split; congruence.
  - destruct q as [|b q]; [split; congruence|].
    destruct (String.eqb_spec a b).
    + subst. rewrite IH. split; congruence.
    + split; congruence.
Qed.

Lemma strip_prefix_app : forall p r, strip_prefix p (p ++ r) = Some r.
Proof. intros. apply strip_prefix_spec. reflexivity. Qed.

Lemma strip_prefix_refl : forall p, strip_prefix p p = Some [].
Proof. intros. apply strip_prefix_spec. now rewrite app_nil_r. Qed.

Lemma strip_prefix_none : forall p q, strip_prefix p q = None <-> forall r, q <> p ++ r.
Proof.
  intros p q. destruct (strip_prefix p q) as [r|] eqn:E.
  - apply strip_prefix_spec in E. split; [discriminate|]. intro H. exfalso. eapply H; eauto.
  - split; auto. intros _ r Hr. apply strip_prefix_spec in Hr. congruence.
Qed.

Lemma is_prefix_true : forall p q, is_prefix p q = true <-> exists r, q = p ++ r.
Proof.
  intros p q. unfold is_prefix. destruct (strip_prefix p q) as [r|] eqn:E.
  - apply strip_prefix_spec in E. split; eauto.
  - split; [discriminate|]. intros [r Hr]. apply strip_prefix_spec in Hr. congruence.
Qed.

Lemma is_prefix_false : forall p q, is_prefix p q = false <-> forall r, q <> p ++ r.
Proof.
  intros p q. unfold is_prefix. rewrite <- strip_prefix_none.
  destruct (strip_prefix p q); split; congruence.
Qed.

Lemma is_prefix_app : forall p r, is_prefix p (p ++ r) = true.
Proof. intros. apply is_prefix_true. eauto. Qed.

Lemma is_prefix_refl : forall p, is_prefix p p = true.
Proof. intros. apply is_prefix_true. exists []. now rewrite app_nil_r. Qed.

(* strip_prefix of a child path in terms of the parent's *)
Lemma strip_prefix_child : forall p n q,
  strip_prefix (p ++ [n]) q =
  match strip_prefix p q with
  | Some (m :: r) => if String.eqb n m then Some r else None
  | _ => None
  end.
Proof.
  induction p as [|a p IH]; intros n q; simpl.
  - destruct q as [|b q]; auto.
  - destruct q as [|b q]; auto.
    destruct (String.eqb a b); auto.
Qed.

(* two prefixes of one path are comparable *)
Lemma prefix_comparable : forall a b r1 r2 : path,
  a ++ r1 = b ++ r2 -> (exists t, b = a ++ t) \/ (exists t, a = b ++ t).
Proof.
  induction a as [|x a IH]; intros b r1 r2 H.
  - left. exists b. reflexivity.
  - destruct b as [|y b].
    + right. exists (x :: a). reflexivity.
    + simpl in H. injection H as Hxy H. subst y.
      destruct (IH _ _ _ H) as [[t Ht]|[t Ht]]; [left|right]; exists t; simpl; congruence.
Qed.

Lemma app_eq_self_nil : forall (p r : path), p = p ++ r -> r = [].
Proof.
  intros p r H. assert (L : List.length p = List.length (p ++ r)) by congruence.
  rewrite app_length in L. destruct r; auto. simpl in L. lia.
Qed.

Lemma split_last_app : forall d n, split_last (d ++ [n]) = Some (d, n).
Proof.
  induction d as [|a d IH]; intro n; simpl; auto.
  rewrite IH. reflexivity.
Qed.

Lemma split_last_nil : forall p, split_last p = None -> p = [].
Proof.
  destruct p as [|a p]; auto. simpl. destruct (split_last p) as [[d n]|]; discriminate.
Qed.

Lemma split_last_some : forall p d n, split_last p = Some (d, n) -> p = d ++ [n].
Proof.
  intros p d n H. destruct p as [|a p]; [discriminate|].
  destruct (exists_last (l := a :: p)) as [d' [n' E]]; [discriminate|].
  rewrite E in H. rewrite split_last_app in H. congruence.
Qed.

Lemma path_cases : forall p : path, p = [] \/ exists d n, p = d ++ [n].
Proof.
  intro p. destruct p as [|a p]; auto. right.
  destruct (exists_last (l := a :: p)) as [d [n E]]; [discriminate|]. eauto.
Qed.

Lemma parent_child : forall d n, parent (d ++ [n]) = d.
Proof. intros. unfold parent. now rewrite split_last_app. Qed.

Lemma is_child_of_spec : forall d q, is_child_of d q = true <-> exists n, q = d ++ [n].
Proof.
  intros d q. unfold is_child_of. destruct (strip_prefix d q) as [r|] eqn:E.
  - apply strip_prefix_spec in E. subst q. destruct r as [|m [|m' r]].
    + split; [discriminate|]. intros [n H]. apply app_inv_head in H. discriminate.
    + split; eauto.
    + split; [discriminate|]. intros [n H]. apply app_inv_head in H. discriminate.
  - split; [discriminate|]. intros [n H]. apply strip_prefix_spec in H. congruence.
Qed.

(* ================= the flat store ================= *)
Definition equiv (a b : store) : Prop := forall q, find a q = find b q.

Lemma equiv_refl : forall a, equiv a a. Proof. intros a q. reflexivity. Qed.
Lemma equiv_sym : forall a b, equiv a b -> equiv b a. Proof. intros a b H q. symmetry. apply H. Qed.
Lemma equiv_trans : forall a b c, equiv a b -> equiv b c -> equiv a c.
Proof. intros a b c H1 H2 q. rewrite H1. apply H2. Qed.

Lemma find_filter_key : forall (f : path -> bool) s q,
  find (filter (fun kv => f (fst kv)) s) q = if f q then find s q else None.
Proof.
  intros f s q. induction s as [|[k e] s IH]; simpl.
  - destruct (f q); reflexivity.
  - destruct (f k) eqn:Fk; simpl; destruct (path_eqb_spec k q) as [Heq|Hne];
      try subst q; rewrite ?IH, ?Fk; auto.
Qed.

Lemma find_remove : forall s p q, find (remove s p) q = if path_eqb p q then None else find s q.
Proof.
  intros. unfold remove. rewrite (find_filter_key (fun k => negb (path_eqb k p))).
  rewrite (path_eqb_sym q p). destruct (path_eqb p q); reflexivity.
Qed.

Lemma find_insert : forall s p e q, find (insert s p e) q = if path_eqb p q then Some e else find s q.
Proof.
  intros. unfold insert. simpl. destruct (path_eqb p q) eqn:E; auto.
  rewrite find_remove, E. reflexivity.
Qed.

Lemma find_insert_same : forall s p e, find (insert s p e) p = Some e.
Proof. intros. rewrite find_insert, path_eqb_refl. reflexivity. Qed.

Lemma find_insert_other : forall s p e q, p <> q -> find (insert s p e) q = find s q.
Proof. intros. rewrite find_insert. destruct (path_eqb_spec p q); congruence. Qed.

Lemma find_app : forall a b q, find (a ++ b) q = match find a q with Some e => Some e | None => find b q end.
Proof.
  induction a as [|[k e] a IH]; intros; simpl; auto.
  destruct (path_eqb k q); auto.
Qed.

Lemma find_Some_In : forall s p e, find s p = Some e -> In (p, e) s.
Proof.
  induction s as [|[k e'] s IH]; simpl; intros p e H; [discriminate|].
  destruct (path_eqb_spec k p); [left; congruence | right; auto].
Qed.

Lemma find_None_notin : forall s p, find s p = None <-> ~ In p (keys s).
Proof.
  induction s as [|[k e'] s IH]; simpl; intros p.
  - tauto.
  - destruct (path_eqb_spec k p).
    + split; [discriminate|]. intro H. exfalso. apply H. auto.
    + rewrite IH. split; [intros H [H1|H1]; auto | intros H H1; apply H; auto].
Qed.

Lemma In_find : forall s p e, NoDup (keys s) -> In (p, e) s -> find s p = Some e.
Proof.
  induction s as [|[k e'] s IH]; simpl; intros p e Hnd Hin; [tauto|].
  inversion Hnd as [|? ? Hk Hnd']; subst.
  destruct Hin as [Hin|Hin].
  - inversion Hin; subst. now rewrite path_eqb_refl.
  - destruct (path_eqb_spec k p).
    + subst. exfalso. apply Hk. apply in_map_iff. exists (p, e). auto.
    + auto.
Qed.

Lemma keys_filter_NoDup : forall (f : path * entry -> bool) s, NoDup (keys s) -> NoDup (keys (filter f s)).
Proof.
  intros f s. unfold keys. induction s as [|kv s IH]; simpl; intro H; [constructor|].
  inversion H as [|? ? Hk Hnd]; subst.
  destruct (f kv); simpl; auto. constructor; auto.
  intro Hin. apply Hk. apply in_map_iff in Hin. destruct Hin as [x [Hx Hin]].
  apply filter_In in Hin. apply in_map_iff. exists x. tauto.
Qed.

Lemma remove_notin : forall s p, ~ In p (keys (remove s p)).
Proof.
  intros s p. apply find_None_notin. rewrite find_remove, path_eqb_refl. reflexivity.
Qed.

Lemma insert_NoDup : forall s p e, NoDup (keys s) -> NoDup (keys (insert s p e)).
Proof.
  intros. unfold insert. simpl. constructor.
  - apply remove_notin.
  - apply keys_filter_NoDup. assumption.
Qed.

Lemma max_len_find : forall s q e, find s q = Some e -> List.length q <= max_len s.
Proof.
  induction s as [|[k e'] s IH]; simpl; intros q e H; [discriminate|].
  destruct (path_eqb_spec k q).
  - subst. lia.
  - apply IH in H. lia.
Qed.

(* ----- listing the children of a directory ----- *)
Lemma insert_by_name_perm : forall x l, Permutation (x :: l) (insert_by_name x l).
Proof.
  intros x l. induction l as [|y l IH]; simpl; auto.
  destruct (String.leb (fst x) (fst y)); auto.
  eapply perm_trans; [apply perm_swap|]. constructor. auto.
Qed.

Lemma sort_by_name_perm : forall l, Permutation l (sort_by_name l).
Proof.
  induction l as [|x l IH]; simpl; auto.
  eapply perm_trans; [|apply insert_by_name_perm]. constructor. auto.
Qed.

Lemma children_raw_In : forall s d n e,
  In (n, e) (children_raw s d) <-> In (d ++ [n], e) s.
Proof.
  intros s d n e. unfold children_raw. rewrite in_flat_map. split.
  - intros [[k e'] [Hin H]]. simpl in H.
    destruct (strip_prefix d k) as [[|m [|m' r]]|] eqn:E; simpl in H; try tauto.
    destruct H as [H|[]]. inversion H; subst. apply strip_prefix_spec in E. subst. assumption.
  - intro Hin. exists (d ++ [n], e). split; auto. simpl. rewrite strip_prefix_app. left. reflexivity.
Qed.

Lemma children_raw_NoDup : forall s d, NoDup (keys s) -> NoDup (map fst (children_raw s d)).
Proof.
  intros s d. induction s as [|[k e] s IH]; simpl; intro H; [constructor|].
  inversion H as [|? ? Hk Hnd]; subst.
  destruct (strip_prefix d k) as [[|m [|m' r]]|] eqn:E; simpl; auto.
  constructor; auto. intro Hin. apply in_map_iff in Hin. destruct Hin as [[n e'] [Hn Hin]].
  simpl in Hn. subst n. apply children_raw_In in Hin.
  apply strip_prefix_spec in E. subst k. apply Hk. apply in_map_iff. exists (d ++ [m], e'). auto.
Qed.

Lemma list_children_spec : forall s d n e, NoDup (keys s) ->
  (In (n, e) (list_children s d) <-> find s (d ++ [n]) = Some e).
Proof.
  intros s d n e Hnd. unfold list_children. split.
  - intro H. apply In_find; auto. apply children_raw_In.
    eapply Permutation_in; [apply Permutation_sym, sort_by_name_perm | exact H].
  - intro H. eapply Permutation_in; [apply sort_by_name_perm|].
    apply children_raw_In. apply find_Some_In. assumption.
Qed.

Lemma list_children_NoDup : forall s d, NoDup (keys s) -> NoDup (map fst (list_children s d)).
Proof.
  intros s d H. unfold list_children.
  eapply Permutation_NoDup; [apply Permutation_map, sort_by_name_perm|].
  apply children_raw_NoDup. assumption.
Qed.

Lemma has_children_spec : forall s d, has_children s d = true <-> exists n e, find s (d ++ [n]) = Some e.
Proof.
  intros s d. unfold has_children. rewrite existsb_exists. split.
  - intros [[k e] [Hin H]]. simpl in H. apply is_child_of_spec in H. destruct H as [n Hn]. subst k.
    destruct (find s (d ++ [n])) as [e'|] eqn:E; eauto.
    exfalso. apply find_None_notin in E. apply E. apply in_map_iff. exists (d ++ [n], e). auto.
  - intros [n [e H]]. exists (d ++ [n], e). split; [apply find_Some_In; auto|].
    simpl. apply is_child_of_spec. eauto.
Qed.

Lemma has_children_false : forall s d, has_children s d = false <-> forall n, find s (d ++ [n]) = None.
Proof.
  intros s d. split.
  - intros H n. destruct (find s (d ++ [n])) as [e|] eqn:E; auto.
    assert (has_children s d = true) by (apply has_children_spec; eauto). congruence.
  - intro H. destruct (has_children s d) eqn:E; auto.
    apply has_children_spec in E. destruct E as [n [e E]]. rewrite H in E. discriminate.
Qed.

Lemma list_children_nil : forall s d, NoDup (keys s) ->
  (list_children s d = [] <-> forall n, find s (d ++ [n]) = None).
Proof.
  intros s d Hnd. split.
  - intros H n. destruct (find s (d ++ [n])) as [e|] eqn:E; auto.
    apply list_children_spec in E; auto. rewrite H in E. destruct E.
  - intro H. destruct (list_children s d) as [|[n e] l] eqn:E; auto.
    assert (Hin : In (n, e) (list_children s d)) by (rewrite E; left; auto).
    apply list_children_spec in Hin; auto. rewrite H in Hin. discriminate.
Qed.

Lemma find_delete_folder_children : forall s d q,
  find (delete_folder_children s d) q = if is_child_of d q then None else find s q.
Proof.
  intros. unfold delete_folder_children.
  rewrite (find_filter_key (fun k => negb (is_child_of d k))). destruct (is_child_of d q); reflexivity.
Qed.

(* ================= well-formed namespaces ================= *)
(* every stored entry below the top level has a stored parent that is a directory *)
Definition tree_ok (s : store) : Prop :=
  forall d n e, find s (d ++ [n]) = Some e -> d = [] \/ exists de, find s d = Some de /\ e_dir de = true.

Definition wf (s : store) : Prop := NoDup (keys s) /\ tree_ok s.

Lemma wf_nil : wf [].
Proof. split; [constructor | intros d n e H; discriminate]. Qed.

Lemma tree_ok_equiv : forall a b, equiv a b -> tree_ok a -> tree_ok b.
Proof.
  intros a b H Ha d n e Hf. rewrite <- H in Hf. destruct (Ha _ _ _ Hf) as [|[de [H1 H2]]]; auto.
  right. exists de. rewrite <- H. auto.
Qed.

(* all the ancestors, not just the parent *)
Lemma wf_ancestors : forall s, tree_ok s -> forall r a e,
  find s (a ++ r) = Some e -> a <> [] -> r <> [] ->
  exists de, find s a = Some de /\ e_dir de = true.
Proof.
  intros s Hs r. induction r as [|n r IH] using rev_ind; intros a e Hf Ha Hr; [congruence|].
  rewrite app_assoc in Hf. destruct (Hs _ _ _ Hf) as [Hnil|[de [H1 H2]]].
  - destruct a; [congruence | discriminate].
  - destruct r as [|m r'].
    + rewrite app_nil_r in H1. eauto.
    + eapply IH; eauto. discriminate.
Qed.

(* an absent path has nothing below it *)
Lemma wf_absent_below : forall s, tree_ok s -> forall a r,
  a <> [] -> find s a = None -> find s (a ++ r) = None.
Proof.
  intros s Hs a r Ha Hn. destruct r as [|n r]; [now rewrite app_nil_r|].
  destruct (find s (a ++ n :: r)) as [e|] eqn:E; auto.
  destruct (wf_ancestors s Hs (n :: r) a e E Ha) as [de [H1 _]]; [discriminate|congruence].
Qed.

(* a file has nothing below it *)
Lemma wf_file_below : forall s, tree_ok s -> forall a r e,
  a <> [] -> find s a = Some e -> e_dir e = false -> r <> [] -> find s (a ++ r) = None.
Proof.
  intros s Hs a r e Ha Hf Hd Hr. destruct (find s (a ++ r)) as [e'|] eqn:E; auto.
  destruct (wf_ancestors s Hs r a e' E Ha Hr) as [de [H1 H2]]. congruence.
Qed.

(* the executable predicate used by the oracle *)
Lemma nodup_paths_spec : forall l, nodup_paths l = true <-> NoDup l.
Proof.
  induction l as [|p l IH]; simpl.
  - split; [constructor|auto].
  - rewrite andb_true_iff, negb_true_iff, IH. split.
    + intros [H1 H2]. constructor; auto. intro Hin.
      assert (existsb (path_eqb p) l = true) by (apply existsb_exists; exists p; split; auto; apply path_eqb_refl).
      congruence.
    + intro H. inversion H as [|? ? Hn Hd]; subst. split; auto.
      destruct (existsb (path_eqb p) l) eqn:E; auto.
      apply existsb_exists in E. destruct E as [x [Hx Hpx]].
      destruct (path_eqb_spec p x); [subst; tauto | discriminate].
Qed.

Lemma wf_b_spec : forall s, wf_b s = true <-> wf s.
Proof.
  intro s. unfold wf_b, wf. rewrite andb_true_iff, nodup_paths_spec, forallb_forall. split.
  - intros [Hnd H]. split; auto. intros d n e Hf.
    specialize (H _ (find_Some_In _ _ _ Hf)). unfold parent_ok in H. simpl in H.
    rewrite split_last_app in H. destruct d as [|a d]; auto. right.
    destruct (find s (a :: d)) as [de|]; [eauto | discriminate].
  - intros [Hnd H]. split; auto. intros [k e] Hin. unfold parent_ok. simpl.
    destruct (split_last k) as [[d n]|] eqn:E; auto.
    apply split_last_some in E. subst k. destruct d as [|a d]; auto.
    destruct (H (a :: d) n e (In_find _ _ _ Hnd Hin)) as [|[de [H1 H2]]]; [discriminate|].
    now rewrite H1.
Qed.

