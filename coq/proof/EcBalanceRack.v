(* The rack free-slot counters of the ec.balance model (C16).
   Invariant: EcRack.freeEcSlot never exceeds the sum of the free slots of the rack's nodes
   (plus one per pick still waiting for a destination).  Consequence: when pickOneRack
   finds a rack, pickOneEcNodeAndMoveOneShard finds a node in it - a picked shard is only
   ever abandoned with the printed line "can not find a destination rack".  So the
   drop trigger of finding 0 is decidable on the printed plan. *)
From Coq Require Import List NArith ZArith Bool Lia Arith.
From SW Require Import model.EcBalance proof.EcBalanceBase proof.EcBalanceInv proof.EcBalanceSpread proof.EcBalanceProofs proof.EcBalanceKey.
Import ListNotations.
Local Open Scope N_scope.
Local Open Scope Z_scope.

(* ---------- occurrences, permutations ---------- *)
Lemma occ_in : forall x l, In x l -> (1 <= occ x l)%nat.
Proof.
  induction l as [|y l IH]; intros H; simpl in *; [destruct H|].
  destruct (N.eqb_spec y x); [lia|]. destruct H; [contradiction|auto].
Qed.
Lemma occ_pos_in : forall x l, (1 <= occ x l)%nat -> In x l.
Proof.
  induction l as [|y l IH]; intros H; simpl in *; [lia|].
  destruct (N.eqb_spec y x); [left; auto|right; auto].
Qed.
Lemma occ_nodup : forall x l, NoDup l -> (occ x l <= 1)%nat.
Proof.
  induction l as [|y l IH]; intros H; simpl; [lia|]. inv H.
  destruct (N.eqb_spec y x).
  - subst. destruct (occ x l) eqn:E; [lia|]. exfalso. apply H2. apply occ_pos_in. lia.
  - auto.
Qed.
Lemma nodup_of_occ : forall l, (forall x, In x l -> (occ x l <= 1)%nat) -> NoDup l.
Proof.
  induction l as [|y l IH]; intros H; [constructor|]. constructor.
  - intros Hin. specialize (H y (or_introl eq_refl)). simpl in H. rewrite N.eqb_refl in H.
    pose proof (occ_in y l Hin). lia.
  - apply IH. intros x Hx. specialize (H x (or_intror Hx)). simpl in H. destruct (N.eqb y x); lia.
Qed.
Lemma perm_eqb_occ : forall l1 l2 x, perm_eqb l1 l2 = true -> In x l1 -> occ x l1 = occ x l2.
Proof.
  intros l1 l2 x H Hin. unfold perm_eqb in H. apply andb_true_iff in H. destruct H as [_ H].
  rewrite forallb_forall in H. specialize (H x Hin). apply Nat.eqb_eq in H. exact H.
Qed.
Lemma perm_eqb_nodup : forall l1 l2, perm_eqb l1 l2 = true -> NoDup l2 -> NoDup l1.
Proof.
  intros l1 l2 H Hnd. apply nodup_of_occ. intros x Hx.
  rewrite (perm_eqb_occ _ _ _ H Hx). apply occ_nodup. exact Hnd.
Qed.
Lemma perm_eqb_in : forall l1 l2 x, perm_eqb l1 l2 = true -> In x l1 -> In x l2.
Proof.
  intros l1 l2 x H Hx. apply occ_pos_in. rewrite <- (perm_eqb_occ _ _ _ H Hx). apply occ_in. exact Hx.
Qed.

(* keys of a Go int map built by aadd *)
Lemma aadd_keys_in : forall l k d x, In x (map fst (aadd l k d)) -> x = k \/ In x (map fst l).
Proof.
  induction l as [|[k0 y] l IH]; intros k d x H; simpl in *.
  - destruct H as [H|[]]. left. auto.
  - destruct (N.eqb_spec k0 k); simpl in *.
    + destruct H; auto.
    + destruct H as [H|H]; auto. apply IH in H. destruct H; auto.
Qed.
Lemma aadd_keys_nodup : forall l k d, NoDup (map fst l) -> NoDup (map fst (aadd l k d)).
Proof.
  induction l as [|[k0 y] l IH]; intros k d H; simpl.
  - constructor; [intros []|constructor].
  - inv H. destruct (N.eqb_spec k0 k); simpl.
    + constructor; auto.
    + constructor; auto. intros X. apply aadd_keys_in in X. destruct X; [congruence|contradiction].
Qed.
Lemma group_count_keys_nodup : forall ns locs v, NoDup (map fst (group_count ns locs v)).
Proof.
  intros ns locs v. unfold group_count.
  assert (G : forall l acc, NoDup (map fst acc) ->
    NoDup (map fst (fold_left (fun acc id => aadd acc (node_rack ns id) (count (node_bits ns id v))) l acc))).
  { induction l as [|id l IH]; intros acc H; simpl; auto. apply IH. apply aadd_keys_nodup. exact H. }
  apply G. constructor.
Qed.

(* ---------- ensureSortedEcNodes only reorders ---------- *)
Lemma bubble_left_rev_in : forall rp x passed y,
  In y (bubble_left_rev rp x passed) -> In y rp \/ y = x \/ In y passed.
Proof.
  induction rp as [|z rp IH]; intros x passed y H; simpl in H.
  - destruct H; auto.
  - destruct (snd x >? snd z).
    + apply IH in H. destruct H as [H|[H|H]]; [left; right; exact H|right; left; exact H|].
      destruct H as [H|H]; [left; left; exact H|right; right; exact H].
    + apply in_app_or in H. destruct H as [H|H].
      * change (rev rp ++ [z]) with (rev (z :: rp)) in H. rewrite <- in_rev in H. left. exact H.
      * destruct H as [H|H]; [right; left; symmetry; exact H|right; right; exact H].
Qed.
Lemma bubble_right_in : forall post y z, In z (bubble_right y post) -> z = y \/ In z post.
Proof.
  induction post as [|w post IH]; intros y z H; simpl in H.
  - destruct H as [H|[]]; auto.
  - destruct (snd w >? snd y).
    + destruct H as [H|H]; [right; left; auto|]. apply IH in H. destruct H; auto. right. right. auto.
    + destruct H as [H|H]; auto.
Qed.
Lemma ensure_sorted_in : forall l idx y, In y (ensure_sorted l idx) -> In y l.
Proof.
  intros l idx y H. unfold ensure_sorted in H.
  destruct (skipn idx l) as [|x post] eqn:S; [exact H|].
  assert (L : forall z, In z (firstn idx l) \/ z = x \/ In z post -> In z l).
  { intros z Hz. rewrite <- (firstn_skipn idx l). rewrite S. apply in_or_app. simpl.
    destruct Hz as [Hz|[Hz|Hz]]; [left; exact Hz|right; left; symmetry; exact Hz|right; right; exact Hz]. }
  set (l1 := bubble_left_rev (rev (firstn idx l)) x [] ++ post) in *.
  assert (L1 : forall z, In z l1 -> In z l).
  { intros z Hz. unfold l1 in Hz. apply in_app_or in Hz. destruct Hz as [Hz|Hz].
    - apply bubble_left_rev_in in Hz. apply L. destruct Hz as [Hz|[Hz|[]]]; auto. left. apply in_rev. exact Hz.
    - apply L. auto. }
  destruct (skipn idx l1) as [|y1 post1] eqn:S1; [apply L1; exact H|].
  apply L1. rewrite <- (firstn_skipn idx l1). rewrite S1. apply in_app_or in H. apply in_or_app.
  destruct H as [H|H]; auto. right. apply bubble_right_in in H. simpl. destruct H; auto.
Qed.
Lemma dec_at_keys : forall l i, map fst (dec_at l i) = map fst l.
Proof.
  induction l as [|[id c] l IH]; intros i; simpl; auto. destruct i; simpl; auto. f_equal. apply IH.
Qed.
Lemma first_nonzero_in : forall ns v cands i0 i id b,
  first_nonzero ns v cands i0 = Some (i, id, b) -> In id (map fst cands).
Proof.
  induction cands as [|[id0 c0] cands IH]; intros i0 i id b H; simpl in H; [discriminate|].
  destruct (N.ltb 0 (node_bits ns id0 v)).
  - inv H. left. reflexivity.
  - right. eapply IH; eauto.
Qed.

(* ---------- free slots of the nodes of one rack ---------- *)
Fixpoint fsum (ns : list node) (r : N) : Z :=
  match ns with
  | [] => 0
  | n :: ns' => (if N.eqb (n_rack n) r then n_free n else 0) + fsum ns' r
  end.

Lemma fsum_upd : forall ns id f n r, keeps_id_rack f -> wf_ids ns -> get_node ns id = Some n ->
  fsum (upd_node ns id f) r = fsum ns r + (if N.eqb (n_rack n) r then n_free (f n) - n_free n else 0).
Proof.
  induction ns as [|x ns IH]; intros id f n r Hk Hwf G; simpl in *; [discriminate|].
  inv Hwf. destruct (N.eqb_spec (n_id x) id) as [E|E].
  - inv G. rewrite notin_upd by auto. destruct (Hk n) as [_ Hr]. rewrite Hr.
    destruct (N.eqb (n_rack n) r); lia.
  - rewrite (IH id f n r Hk H2 G). lia.
Qed.

Lemma collect_racks_fsum : forall ns r, alookup (collect_racks ns) r = fsum ns r.
Proof.
  intros ns r. unfold collect_racks.
  assert (G : forall l acc, alookup (fold_left (fun acc n => aadd acc (n_rack n) (n_free n)) l acc) r = alookup acc r + fsum l r).
  { induction l as [|n l IH]; intros acc; simpl; [lia|]. rewrite IH, alookup_aadd. lia. }
  rewrite G. simpl. lia.
Qed.

Lemma fsum_pos_exists : forall ns r, 0 < fsum ns r -> exists n, In n ns /\ n_rack n = r /\ 0 < n_free n.
Proof.
  induction ns as [|x ns IH]; intros r H; simpl in H; [lia|].
  destruct (N.eqb_spec (n_rack x) r) as [E|E].
  - destruct (Z.ltb_spec 0 (n_free x)).
    + exists x. split; [left; auto|auto].
    + destruct (IH r) as [n [A B]]; [lia|]. exists n. split; [right; auto|auto].
  - destruct (IH r) as [n [A B]]; [lia|]. exists n. split; [right; auto|auto].
Qed.

Lemma count_le_rsum : forall ns n r v, In n ns -> n_rack n = r -> count (find n v) <= rsum ns r v.
Proof.
  induction ns as [|x ns IH]; intros n r v Hin Hr; simpl in *; [destruct Hin|].
  pose proof (rsum_nonneg ns r v). destruct Hin as [E|Hin].
  - subst x. rewrite Hr, N.eqb_refl. lia.
  - specialize (IH n r v Hin Hr). pose proof (count_nonneg (find x v)). destruct (N.eqb (n_rack x) r); lia.
Qed.

(* free slot change of the two bookkeeping primitives *)
Lemma del_in_delta_le : forall es v s, snd (del_in es v s) <= 0.
Proof.
  induction es as [|e es IH]; intros v s; simpl; [lia|].
  specialize (IH v s). destruct (del_in es v s) as [r d]. simpl in *.
  destruct (N.eqb (e_vid e) v); simpl; auto.
  pose proof (count_remove_le (e_bits e) s). lia.
Qed.
Lemma free_del_ge : forall v s n, n_free n <= n_free (del_shard v s n).
Proof.
  intros v s n. unfold del_shard. destruct (n_disk n) as [es|]; [|lia].
  pose proof (del_in_delta_le es v s) as D. destruct (del_in es v s) as [es' d]. simpl in *. lia.
Qed.
Lemma free_add_ge : forall v c s n, n_free n - 1 <= n_free (add_shard v c s n).
Proof.
  intros v c s n. unfold add_shard. destruct (n_disk n) as [es|]; simpl; [|lia].
  destruct (add_in es v s) as [[es' d]|] eqn:A; simpl; [|lia].
  rewrite (add_in_delta _ _ _ _ _ A). pose proof (count_add_le (find_bits es v) s). lia.
Qed.

Lemma fsum_del_ge : forall ns id v s r, wf_ids ns -> fsum ns r <= fsum (upd_node ns id (del_shard v s)) r.
Proof.
  intros ns id v s r Hwf. destruct (get_node ns id) as [n|] eqn:G.
  - rewrite (fsum_upd ns id _ n r (keeps_del v s) Hwf G). pose proof (free_del_ge v s n).
    destruct (N.eqb (n_rack n) r); lia.
  - rewrite get_node_none_upd by auto. lia.
Qed.
Lemma fsum_add_ge : forall ns id v c s r, wf_ids ns ->
  fsum ns r - ind (N.eqb (node_rack ns id) r) <= fsum (upd_node ns id (add_shard v c s)) r.
Proof.
  intros ns id v c s r Hwf. destruct (get_node ns id) as [n|] eqn:G.
  - rewrite (fsum_upd ns id _ n r (keeps_add v c s) Hwf G). rewrite (node_rack_get _ _ _ G).
    pose proof (free_add_ge v c s n). unfold ind. destruct (N.eqb (n_rack n) r); lia.
  - rewrite get_node_none_upd by auto. unfold ind. destruct (N.eqb (node_rack ns id) r); lia.
Qed.
Lemma fsum_move_ge : forall ns src v c s dst r, wf_ids ns ->
  fsum ns r - ind (N.eqb (node_rack ns dst) r) <= fsum (move_shard ns src v c s dst) r.
Proof.
  intros ns src v c s dst r Hwf. unfold move_shard.
  pose proof (fsum_add_ge ns dst v c s r Hwf) as A.
  assert (Hwf1 : wf_ids (upd_node ns dst (add_shard v c s))) by (apply upd_wf; auto with c16).
  pose proof (fsum_del_ge (upd_node ns dst (add_shard v c s)) src v s r Hwf1) as D. lia.
Qed.

(* a pick: the node holds the shard, so exactly one slot is freed in its rack *)
Lemma fsum_del_held : forall ns id v s r, wf ns -> hb ns id v s = true -> In s bit_range ->
  fsum (upd_node ns id (del_shard v s)) r = fsum ns r + ind (N.eqb (node_rack ns id) r).
Proof.
  intros ns id v s r [Hwf He] Hb Hin. unfold hb in Hb. destruct (get_node ns id) as [n|] eqn:G.
  - rewrite (fsum_upd ns id _ n r (keeps_del v s) Hwf G). rewrite (node_rack_get _ _ _ G).
    rewrite (node_bits_get _ _ _ _ G) in Hb.
    assert (Hnd : NoDup (map e_vid (entries n))).
    { unfold wf_entries in He. rewrite Forall_forall in He. apply He. apply get_node_in in G. tauto. }
    rewrite (free_del_shard v s n Hnd Hb Hin). unfold ind. destruct (N.eqb (n_rack n) r); lia.
  - unfold node_bits in Hb. rewrite G, has_zero in Hb. discriminate.
Qed.

(* ---------- the invariants of doBalanceEcShardsAcrossRacks ---------- *)
(* rack counter + picks waiting for a destination <= free slots of the rack's nodes *)
Definition RIp (ns : list node) (rk : list (N * Z)) (picked : list (N * N)) : Prop :=
  forall r, alookup rk r + pend picked ns r <= fsum ns r.
(* picks are only waiting from racks that are still above the average *)
Definition PI (ns : list node) (rsc : list (N * Z)) (avg : Z) (picked : list (N * N)) : Prop :=
  forall r, pend picked ns r <= Z.max 0 (alookup rsc r - avg).

Lemma pick_n_rack : forall n v cands ns picked ns' picked' rk r,
  pick_n n v cands ns picked = (ns', picked') -> wf ns ->
  (forall id, In id (map fst cands) -> node_rack ns id = r) ->
  RIp ns rk picked ->
  wf ns' /\ same_racks ns ns' /\ RIp ns' rk picked' /\
  (forall r', pend picked' ns' r' <= pend picked ns r' + (if N.eqb r r' then Z.of_nat n else 0)).
Proof.
  induction n as [|n IH]; intros v cands ns picked ns' picked' rk r H Hwf Hc Hri; simpl pick_n in H.
  - inv H. split; auto. split; [apply same_racks_refl|]. split; auto. intros r'. destruct (N.eqb r r'); simpl; lia.
  - assert (Stop : (ns, picked) = (ns', picked') ->
      wf ns' /\ same_racks ns ns' /\ RIp ns' rk picked' /\
      (forall r', pend picked' ns' r' <= pend picked ns r' + (if N.eqb r r' then Z.of_nat (S n) else 0))).
    { intros X. inv X. split; auto. split; [apply same_racks_refl|]. split; auto.
      intros r'. destruct (N.eqb r r'); lia. }
    destruct (first_nonzero ns v cands 0) as [[[i id] b]|] eqn:F; [|auto].
    destruct (shard_ids b) as [|s rest] eqn:S; [auto|].
    assert (Hs : In s (shard_ids b)) by (rewrite S; left; reflexivity).
    assert (Hb : hb ns id v s = true).
    { unfold hb. rewrite <- (first_nonzero_spec _ _ _ _ _ _ _ F). apply shard_ids_has. exact Hs. }
    assert (Hid : node_rack ns id = r) by (apply Hc; eapply first_nonzero_in; eauto).
    pose proof (same_racks_del ns id v s) as SR.
    apply IH with (rk := rk) (r := r) in H.
    + destruct H as [W [SR' [A B]]]. split; auto. split; [eapply same_racks_trans; eauto|]. split; auto.
      intros r'. specialize (B r').
      rewrite (pend_ext _ ns _ r' SR) in B. pose proof (pend_pset_le picked s id ns r') as P.
      rewrite Hid in P. unfold ind in P. rewrite Nat2Z.inj_succ. destruct (N.eqb r r'); lia.
    + apply wf_del; auto.
    + intros id' Hin. rewrite SR. apply Hc.
      apply in_map_iff in Hin. destruct Hin as [p [E Hp]]. apply ensure_sorted_in in Hp.
      rewrite <- (dec_at_keys cands i). apply in_map_iff. exists p. auto.
    + intros r0. rewrite (pend_ext _ ns _ r0 SR). pose proof (pend_pset_le picked s id ns r0) as P.
      rewrite (fsum_del_held ns id v s r0 Hwf Hb (shard_ids_range _ _ Hs)). specialize (Hri r0). lia.
Qed.

Lemma valid_cands_rack : forall ns locs r v cands id,
  valid_cands ns (filter (fun id => N.eqb (node_rack ns id) r) locs) v cands = true ->
  In id cands -> node_rack ns id = r.
Proof.
  intros ns locs r v cands id H Hin. unfold valid_cands in H. apply andb_true_iff in H. destruct H as [H _].
  apply (perm_eqb_in _ _ _ H) in Hin. apply filter_In in Hin. destruct Hin as [Hin _].
  apply filter_In in Hin. destruct Hin as [_ Hin]. apply N.eqb_eq in Hin. exact Hin.
Qed.

Lemma pick_racks_rack : forall ro ns v avg rsc locs picked ns' picked' rk,
  pick_racks ns v avg rsc locs ro picked = Some (ns', picked') -> wf ns -> NoDup (map fst ro) ->
  RIp ns rk picked -> PI ns rsc avg picked -> (forall r, In r (map fst ro) -> pend picked ns r = 0) ->
  RIp ns' rk picked' /\ PI ns' rsc avg picked'.
Proof.
  induction ro as [|[r cands] ro IH]; intros ns v avg rsc locs picked ns' picked' rk H Hwf Hnd Hri Hpi Hz; simpl in H.
  - inv H. auto.
  - simpl in Hnd. inv Hnd. destruct (alookup rsc r >? avg) eqn:Gt.
    + destruct (valid_cands ns (filter (fun id => N.eqb (node_rack ns id) r) locs) v cands) eqn:VC; [|discriminate].
      match type of H with context [pick_n ?a ?b ?c ?d ?e] =>
        destruct (pick_n a b c d e) as [ns1 picked1] eqn:P end.
      apply Z.gtb_lt in Gt.
      destruct (pick_n_rack _ _ _ _ _ _ _ rk r P Hwf) as [W1 [SR [A B]]]; auto.
      { intros id Hin. rewrite map_map in Hin. simpl in Hin. rewrite map_id in Hin.
        eapply valid_cands_rack; eauto. }
      apply IH with (rk := rk) in H; auto.
      * intros r0. specialize (B r0). specialize (Hpi r0). destruct (N.eqb_spec r r0).
        -- subst r0. rewrite (Hz r) in B by (left; reflexivity). rewrite Z2Nat.id in B by lia. lia.
        -- lia.
      * intros r0 Hr0. specialize (B r0). destruct (N.eqb_spec r r0); [subst; contradiction|].
        rewrite (Hz r0) in B by (right; exact Hr0). pose proof (pend_nonneg picked1 ns1 r0). lia.
    + eapply IH; eauto. intros r0 Hr0. apply Hz. right. exact Hr0.
Qed.

(* well-labelled log: an abandoned pick always carries its printed line
   "ec shard v.s at X can not find a destination rack", and nothing else prints that line *)
Definition is_norack (e : event) : bool := match e with ENoRack _ _ _ => true | _ => false end.
Definition lab (i : item) : Prop :=
  match i with
  | IEvent e => is_norack e = false
  | IMove e _ => is_norack e = false
  | IDrop v s src (Some e) => e = ENoRack v s src
  | IDrop _ _ _ None => False
  end.
Definition loud (its : list item) : Prop := Forall lab its.
Lemma loud_app : forall a b, loud a -> loud b -> loud (a ++ b).
Proof. intros. apply Forall_app. auto. Qed.

Lemma rack_node_ids_in : forall ns r n, In n ns -> n_rack n = r -> In (n_id n) (rack_node_ids ns r).
Proof.
  intros ns r n Hin Hr. unfold rack_node_ids. apply in_map. apply filter_In. split; auto.
  apply N.eqb_eq. exact Hr.
Qed.

Lemma across_moves_rack : forall ms c v avg st rsc picked st' its,
  across_moves c v avg st rsc picked ms = Some (st', its) -> wf (nodes st) ->
  SI (nodes st) rsc picked v -> PI (nodes st) rsc avg picked -> RIp (nodes st) (racks st) picked ->
  wf (nodes st') /\ loud its /\ RIp (nodes st') (racks st') [].
Proof.
  induction ms as [|[s ch] ms IH]; intros c v avg st rsc picked st' its H Hwf Hsi Hpi Hri; simpl in H.
  - destruct picked; [|discriminate]. inv H. split; auto. split; [constructor|exact Hri].
  - destruct (ptake picked s) as [[src picked']|] eqn:T; [|discriminate].
    assert (PT : forall r, pend picked' (nodes st) r = pend picked (nodes st) r - ind (N.eqb (node_rack (nodes st) src) r))
      by (intros; eapply pend_ptake; eauto).
    destruct ch as [|r d].
    + destruct (existsb (rack_ok st rsc avg) (rack_ids st)); [discriminate|].
      destruct (across_moves c v avg st rsc picked' ms) as [[st1 its1]|] eqn:R; [|discriminate]. inv H.
      apply IH in R; auto.
      * destruct R as [A [B C]]. split; auto. split; auto. constructor; simpl; auto.
      * intros r. rewrite PT. specialize (Hsi r). unfold ind. destruct (N.eqb _ r); lia.
      * intros r. rewrite PT. specialize (Hpi r). unfold ind. destruct (N.eqb _ r); lia.
      * intros r. rewrite PT. specialize (Hri r). unfold ind. destruct (N.eqb _ r); lia.
    + destruct (mem r (rack_ids st) && rack_ok st rsc avg r) eqn:RO; [|discriminate].
      apply andb_true_iff in RO. destruct RO as [_ RO]. unfold rack_ok in RO.
      apply andb_true_iff in RO. destruct RO as [RO RF]. apply Z.ltb_lt in RO. apply Z.ltb_lt in RF.
      (* the source's rack is still above the average: it is not the rack that was found *)
      assert (Hsr : node_rack (nodes st) src <> r).
      { intros E. pose proof (PT r) as P. rewrite E, N.eqb_refl in P. simpl in P.
        pose proof (pend_nonneg picked' (nodes st) r). specialize (Hpi r). lia. }
      (* some node of the rack has a free slot, holds fewer than avg shards of v and is not the source *)
      assert (Hex : exists x, In x (rack_node_ids (nodes st) r) /\ eligible (nodes st) src v avg x = true).
      { pose proof (Hri r) as F. pose proof (pend_nonneg picked (nodes st) r).
        destruct (fsum_pos_exists (nodes st) r) as [n [Hin [Hr Hf]]]; [lia|].
        exists (n_id n). split; [apply rack_node_ids_in; auto|].
        pose proof (get_node_self _ _ (proj1 Hwf) Hin) as G.
        unfold eligible. rewrite !andb_true_iff. split; [split|].
        - apply negb_true_iff. apply N.eqb_neq. intros E. apply Hsr. rewrite <- E.
          rewrite (node_rack_get _ _ _ G). exact Hr.
        - apply Z.ltb_lt. unfold node_free. rewrite G. exact Hf.
        - apply Z.ltb_lt. rewrite (node_bits_get _ _ _ _ G).
          pose proof (count_le_rsum (nodes st) n r v Hin Hr). specialize (Hsi r). lia. }
      destruct (valid_dest (nodes st) src v avg (rack_node_ids (nodes st) r) d) eqn:V; [|discriminate].
      destruct d as [dst|].
      * match type of H with context [across_moves c v avg ?S ?R picked' ms] =>
          destruct (across_moves c v avg S R picked' ms) as [[st1 its1]|] eqn:R1; [|discriminate] end.
        inv H.
        destruct (valid_dest_some _ _ _ _ _ _ V) as [Hin _].
        pose proof (rack_node_ids_rack _ _ _ (proj1 Hwf) Hin) as Hr.
        pose proof (same_racks_move (nodes st) src v c s dst) as SR.
        apply IH in R1; simpl; auto.
        -- simpl in R1. destruct R1 as [A [B C]]. split; auto. split; auto. constructor; simpl; auto.
        -- apply wf_move; auto.
        -- intros r0. rewrite (pend_ext _ (nodes st) _ r0 SR). rewrite PT.
           pose proof (rsum_move (nodes st) src v c s dst r0 (proj1 Hwf)) as M. rewrite Hr in M.
           rewrite !alookup_aadd. specialize (Hsi r0). unfold ind in *.
           destruct (N.eqb r r0), (N.eqb (node_rack (nodes st) src) r0); lia.
        -- intros r0. rewrite (pend_ext _ (nodes st) _ r0 SR). rewrite PT. rewrite !alookup_aadd.
           specialize (Hpi r0). pose proof (pend_nonneg picked' (nodes st) r0) as Pn. rewrite PT in Pn.
           unfold ind in *. destruct (N.eqb_spec r r0), (N.eqb_spec (node_rack (nodes st) src) r0); subst; try lia; try contradiction.
        -- intros r0. rewrite (pend_ext _ (nodes st) _ r0 SR). rewrite PT. rewrite !alookup_aadd.
           pose proof (fsum_move_ge (nodes st) src v c s dst r0 (proj1 Hwf)) as M. rewrite Hr in M.
           specialize (Hri r0). unfold ind in *.
           destruct (N.eqb r r0), (N.eqb (node_rack (nodes st) src) r0); lia.
      * (* rack found but no node: impossible *)
        exfalso. destruct Hex as [x [Hx He]]. simpl in V. rewrite forallb_forall in V.
        specialize (V x Hx). rewrite He in V. discriminate.
Qed.

(* ---------- the rack counters between the phases ---------- *)
Definition RI (st : state) : Prop := forall r, alookup (racks st) r <= fsum (nodes st) r.

Lemma RIp_nil : forall ns rk, RIp ns rk [] <-> (forall r, alookup rk r <= fsum ns r).
Proof. intros. unfold RIp. simpl. split; intros H r; specialize (H r); lia. Qed.

Lemma across_vid_rack : forall c st o st' its,
  across_vid c st o = Some (st', its) -> wf (nodes st) -> RI st ->
  wf (nodes st') /\ loud its /\ RI st'.
Proof.
  intros c st o st' its H Hwf Hri. unfold across_vid in H.
  destruct (perm_eqb _ _) eqn:PE; [|discriminate].
  destruct (pick_racks _ _ _ _ _ _ _) as [[ns1 picked]|] eqn:P; [|discriminate].
  assert (Hnd : NoDup (map fst (av_racks o))).
  { eapply perm_eqb_nodup; [exact PE|]. apply group_count_keys_nodup. }
  destruct (pick_racks_spread _ _ _ _ _ _ _ _ _ P Hwf) as [W1 [SI1 _]].
  { intros r. simpl. rewrite group_count_rsum by auto. lia. }
  destruct (pick_racks_rack _ _ _ _ _ _ _ _ _ (racks st) P Hwf Hnd) as [RI1 PI1].
  { exact (proj2 (RIp_nil _ _) Hri). }
  { intros r. simpl. lia. }
  { intros r _. reflexivity. }
  apply across_moves_rack in H; simpl; auto.
  destruct H as [A [B C]]. split; auto. split; auto. exact (proj1 (RIp_nil _ _) C).
Qed.

Lemma across_vids_rack : forall os c st st' its,
  across_vids c st os = Some (st', its) -> wf (nodes st) -> RI st ->
  wf (nodes st') /\ loud its /\ RI st'.
Proof.
  induction os as [|o os IH]; intros c st st' its H Hwf Hri; simpl in H.
  - inv H. split; auto. split; [constructor|auto].
  - destruct (across_vid c st o) as [[st1 i1]|] eqn:A; [|discriminate].
    destruct (across_vids c st1 os) as [[st2 i2]|] eqn:B; [|discriminate]. inv H.
    destruct (across_vid_rack _ _ _ _ _ A Hwf Hri) as [W1 [L1 R1]].
    destruct (IH _ _ _ _ B W1 R1) as [W2 [L2 R2]]. split; auto. split; [apply loud_app; auto|auto].
Qed.

(* a move inside one rack of a shard the source holds never lowers the rack's free slot sum *)
Lemma fsum_move_same_rack : forall ns src v c s dst r0, wf ns ->
  hb ns src v s = true -> In s bit_range -> node_rack ns src = node_rack ns dst ->
  fsum ns r0 <= fsum (move_shard ns src v c s dst) r0.
Proof.
  intros ns src v c s dst r0 Hwf Hs Hin Hr. unfold move_shard.
  pose proof (fsum_add_ge ns dst v c s r0 (proj1 Hwf)) as A.
  set (X := upd_node ns dst (add_shard v c s)) in *.
  assert (WX : wf X) by (apply wf_add; auto).
  assert (HX : hb X src v s = true).
  { unfold X. destruct (get_node ns dst) as [nd|] eqn:G.
    - rewrite (hb_add _ _ _ _ _ _ _ _ _ G). rewrite Hs. reflexivity.
    - rewrite get_node_none_upd by auto. exact Hs. }
  rewrite (fsum_del_held X src v s r0 WX HX Hin).
  unfold X at 2. rewrite node_rack_upd by auto with c16. rewrite Hr. lia.
Qed.

(* shards of a volume on a rack through a move inside that rack *)
Lemma rsum_upd_other : forall ns id f r v', keeps_id_rack f -> (forall n, find (f n) v' = find n v') ->
  rsum (upd_node ns id f) r v' = rsum ns r v'.
Proof.
  induction ns as [|x ns IH]; intros id f r v' Hk Hf; simpl; auto.
  rewrite IH by auto. destruct (N.eqb (n_id x) id); auto.
  destruct (Hk x) as [_ Hr]. rewrite Hr, Hf. reflexivity.
Qed.
Lemma rsum_move_same_rack : forall ns src v c s dst r0 v', wf ns ->
  hb ns src v s = true -> In s bit_range -> node_rack ns src = node_rack ns dst ->
  rsum (move_shard ns src v c s dst) r0 v' <= rsum ns r0 v'.
Proof.
  intros ns src v c s dst r0 v' Hwf Hs Hin Hr. unfold move_shard.
  destruct (N.eqb_spec v' v) as [E|E].
  - subst v'. pose proof (rsum_add ns dst v c s r0 (proj1 Hwf)) as A.
    set (X := upd_node ns dst (add_shard v c s)) in *.
    assert (WX : wf X) by (apply wf_add; auto).
    assert (HX : hb X src v s = true).
    { unfold X. destruct (get_node ns dst) as [nd|] eqn:G.
      - rewrite (hb_add _ _ _ _ _ _ _ _ _ G). rewrite Hs. reflexivity.
      - rewrite get_node_none_upd by auto. exact Hs. }
    rewrite (rsum_del_held X src v s r0 (proj1 WX) HX Hin).
    unfold X at 2. rewrite node_rack_upd by auto with c16. rewrite Hr. lia.
  - rewrite rsum_upd_other; auto with c16.
    + rewrite rsum_upd_other; auto with c16; [lia|].
      intros n. rewrite find_add_shard. destruct (N.eqb_spec v' v); [contradiction|reflexivity].
    + intros n. rewrite find_del_shard. destruct (N.eqb_spec v' v); [contradiction|reflexivity].
Qed.

Definition fs_ok (ns ns' : list node) (its : list item) : Prop :=
  wf ns' /\ same_racks ns ns' /\ (forall r0, fsum ns r0 <= fsum ns' r0) /\ loud its /\
  (forall r0 v', rsum ns' r0 v' <= rsum ns r0 v') /\
  Forall (fun i => match i with IMove _ m => m_kind m = KWithin | IEvent _ => True | IDrop _ _ _ _ => False end) its.
Lemma fs_refl : forall ns, wf ns -> fs_ok ns ns [].
Proof.
  intros. split; auto. split; [apply same_racks_refl|]. split; [intros; lia|]. split; [constructor|].
  split; [intros; lia|constructor].
Qed.
Lemma fs_trans : forall a b c i1 i2, fs_ok a b i1 -> fs_ok b c i2 -> fs_ok a c (i1 ++ i2).
Proof.
  intros a b c i1 i2 [A1 [B1 [C1 [D1 [E1 F1]]]]] [A2 [B2 [C2 [D2 [E2 F2]]]]]. split; auto.
  split; [eapply same_racks_trans; eauto|]. split; [|split; [apply loud_app; auto|split]].
  - intros r0. specialize (C1 r0). specialize (C2 r0). lia.
  - intros r0 v'. specialize (E1 r0 v'). specialize (E2 r0 v'). lia.
  - apply Forall_app. auto.
Qed.

Lemma within_shards_fs : forall ss c v avgn nracks ns src dests over ch ns' its ch' r,
  within_shards c v avgn nracks ns src dests ss over ch = Some (ns', its, ch') ->
  wf ns -> NoDup ss -> (forall s, In s ss -> hb ns src v s = true /\ In s bit_range) ->
  node_rack ns src = r -> (forall x, In x dests -> node_rack ns x = r /\ present ns x) ->
  fs_ok ns ns' its /\ (forall x, present ns x -> present ns' x).
Proof.
  induction ss as [|s ss IH]; intros c v avgn nracks ns src dests over ch ns' its ch' r H Hwf Hnd Hh Hs Hd; simpl in H.
  - inv H. split; [apply fs_refl; auto|auto].
  - destruct (over <=? 0); [inv H; split; [apply fs_refl; auto|auto]|].
    destruct ch as [|d ch1]; [discriminate|].
    destruct (valid_dest ns src v avgn dests d) eqn:V; [|discriminate].
    inv Hnd.
    destruct d as [dst|].
    + destruct (within_shards c v avgn nracks (move_shard ns src v c s dst) src dests ss (over - 1) ch1)
        as [[[ns2 its2] ch2]|] eqn:R; [|discriminate]. inv H.
      destruct (valid_dest_some _ _ _ _ _ _ V) as [Hin [Hne _]].
      assert (Hne' : src <> dst) by congruence.
      destruct (Hh s (or_introl eq_refl)) as [Hsrc Hbr].
      destruct (Hd _ Hin) as [Hdr Hdp].
      apply IH with (r := node_rack ns src) in R.
      * destruct R as [Q Pr]. split.
        -- match goal with |- fs_ok _ _ (?a :: ?b :: its2) => change (a :: b :: its2) with ([a; b] ++ its2) end.
           eapply fs_trans; [|exact Q].
           split; [apply wf_move; auto|]. split; [apply same_racks_move|]. split; [|split; [|split]].
           ++ intros r0. apply fsum_move_same_rack; auto; congruence.
           ++ constructor; [reflexivity|]. constructor; [reflexivity|constructor].
           ++ intros r0 v'. apply rsum_move_same_rack; auto; congruence.
           ++ constructor; [exact I|]. constructor; [reflexivity|constructor].
        -- intros x Px. apply Pr. apply present_move. exact Px.
      * apply wf_move; auto.
      * assumption.
      * intros s' Hs'. destruct (Hh s' (or_intror Hs')) as [A B]. split; auto.
        rewrite hb_move_src; auto. rewrite A. destruct (N.eqb_spec s s'); [subst; contradiction|reflexivity].
      * apply node_rack_move.
      * intros x Hx. destruct (Hd _ Hx) as [A B]. split; [rewrite node_rack_move; auto|apply present_move; auto].
    + destruct (within_shards c v avgn nracks ns src dests ss (over - 1) ch1)
        as [[[ns2 its2] ch2]|] eqn:R; [|discriminate]. inv H.
      apply IH with (r := node_rack ns src) in R; auto.
      * destruct R as [Q Pr]. split; auto.
        match goal with |- fs_ok _ _ (?a :: its2) => change (a :: its2) with ([a] ++ its2) end.
        eapply fs_trans; [|exact Q]. split; auto. split; [apply same_racks_refl|]. split; [intros; lia|].
        split; [constructor; [reflexivity|constructor]|]. split; [intros; lia|constructor; [exact I|constructor]].
      * intros s' Hs'. apply Hh. right. exact Hs'.
Qed.

Lemma within_sources_fs : forall srcs c v avgn nracks ns dests ch ns' its ch' r,
  within_sources c v avgn nracks ns srcs dests ch = Some (ns', its, ch') ->
  wf ns -> (forall x, In x srcs -> node_rack ns x = r) ->
  (forall x, In x dests -> node_rack ns x = r /\ present ns x) ->
  fs_ok ns ns' its.
Proof.
  induction srcs as [|src srcs IH]; intros c v avgn nracks ns dests ch ns' its ch' r H Hwf Hs Hd; simpl in H.
  - inv H. apply fs_refl; auto.
  - match type of H with context [within_shards ?a ?b ?c0 ?d ?e ?f ?g ?h ?i ?j] =>
      destruct (within_shards a b c0 d e f g h i j) as [[[ns1 i1] ch1]|] eqn:A; [|discriminate] end.
    destruct (within_sources c v avgn nracks ns1 srcs dests ch1) as [[[ns2 i2] ch2]|] eqn:B; [|discriminate].
    inv H.
    apply within_shards_fs with (r := r) in A; auto.
    + destruct A as [Q Pr]. eapply fs_trans; [exact Q|]. destruct Q as [W [SR _]].
      eapply IH with (r := r); eauto.
      * intros x Hx. rewrite SR. apply Hs. right. exact Hx.
      * intros x Hx. destruct (Hd _ Hx) as [A B']. split; [rewrite SR; exact A|apply Pr; exact B'].
    + apply shard_ids_NoDup.
    + intros s Hin. split; [unfold hb; apply shard_ids_has; exact Hin|eapply shard_ids_range; eauto].
    + apply Hs. left. reflexivity.
Qed.

Lemma within_racks_fs : forall ros c v nracks rsc locs ns ns' its,
  within_racks c v nracks rsc locs ns ros = Some (ns', its) -> wf ns -> fs_ok ns ns' its.
Proof.
  induction ros as [|ro ros IH]; intros c v nracks rsc locs ns ns' its H Hwf; simpl in H.
  - inv H. apply fs_refl; auto.
  - match type of H with context [within_sources ?a ?b ?c0 ?d ?e ?f ?g ?h] =>
      destruct (within_sources a b c0 d e f g h) as [[[ns1 i1] ch1]|] eqn:A; [|discriminate] end.
    destruct ch1; [|discriminate].
    destruct (within_racks c v nracks rsc locs ns1 ros) as [[ns2 i2]|] eqn:B; [|discriminate]. inv H.
    apply within_sources_fs with (r := wr_rack ro) in A; auto.
    + eapply fs_trans; [exact A|]. eapply IH; eauto. apply A.
    + intros x Hx. apply filter_In in Hx. destruct Hx as [_ Hx]. apply N.eqb_eq in Hx. exact Hx.
    + intros x Hx. apply filter_In in Hx. destruct Hx as [Hx _]. split.
      * apply rack_node_ids_rack; auto. apply Hwf.
      * eapply rack_node_ids_get; eauto.
Qed.

Lemma within_vids_fs : forall os c nracks ns ns' its,
  within_vids c nracks ns os = Some (ns', its) -> wf ns -> fs_ok ns ns' its.
Proof.
  induction os as [|o os IH]; intros c nracks ns ns' its H Hwf; simpl in H.
  - inv H. apply fs_refl; auto.
  - destruct (within_vid c nracks ns o) as [[ns1 i1]|] eqn:A; [|discriminate].
    destruct (within_vids c nracks ns1 os) as [[ns2 i2]|] eqn:B; [|discriminate]. inv H.
    unfold within_vid in A. destruct (perm_eqb _ _); [|discriminate].
    apply within_racks_fs in A; auto.
    eapply fs_trans; [exact A|]. eapply IH; eauto. apply A.
Qed.

(* the phases that only print / only move *)
Lemma dedup_shards_loud : forall ss ns locs v keeps ns' its,
  dedup_shards false ns locs v ss keeps = Some (ns', its) -> loud its.
Proof.
  induction ss as [|s ss IH]; intros ns locs v keeps ns' its H; simpl in H.
  - destruct keeps; [|discriminate]. inv H. constructor.
  - destruct (length (holders ns locs v s) <=? 1)%nat; [eapply IH; eauto|].
    destruct keeps as [|k keeps]; [discriminate|].
    destruct (mem k (holders ns locs v s) && _); [|discriminate].
    destruct (dedup_shards false ns locs v ss keeps) as [[ns2 its2]|] eqn:R; [|discriminate]. inv H.
    constructor; [reflexivity|]. eapply IH; eauto.
Qed.
Lemma dedup_vids_loud : forall os ns ns' its,
  dedup_vids false ns os = Some (ns', its) -> loud its.
Proof.
  induction os as [|o os IH]; intros ns ns' its H; cbn [dedup_vids] in H.
  - inv H. constructor.
  - destruct (dedup_shards false ns _ _ _ _) as [[ns1 i1]|] eqn:A; [|discriminate].
    destruct (dedup_vids false ns1 os) as [[ns2 i2]|] eqn:B; [|discriminate]. inv H.
    apply loud_app; [eapply dedup_shards_loud; eauto|eapply IH; eauto].
Qed.
Lemma rack_loop_loud : forall steps nracks ns ids cnts avg ns' its,
  rack_loop nracks ns ids cnts avg steps = Some (ns', its) -> loud its.
Proof.
  induction steps as [|[e f] rest IH]; intros nracks ns ids cnts avg ns' its H; simpl in H; [discriminate|].
  destruct (valid_ends ns ids e f); [|discriminate].
  assert (Stop : match rest with [] => Some (ns, []) | _ :: _ => None end = Some (ns', its) -> loud its).
  { intros X. destruct rest; [|discriminate]. inv X. constructor. }
  destruct ((alookup cnts f >? avg) && (alookup cnts e + 1 <=? avg) && (0 <? node_free ns e)); [|auto].
  destruct (first_foreign (node_entries ns f) (map e_vid (node_entries ns e))) as [en|]; [|auto].
  destruct (shard_ids (e_bits en)) as [|s ss]; [auto|].
  match type of H with context [rack_loop nracks ?a ids ?b avg rest] =>
    destruct (rack_loop nracks a ids b avg rest) as [[ns2 its2]|] eqn:R; [|discriminate] end.
  inv H. constructor; [reflexivity|]. eapply IH; eauto.
Qed.
Lemma balance_racks_list_loud : forall os nracks ns ns' its,
  balance_racks_list nracks ns os = Some (ns', its) -> loud its.
Proof.
  induction os as [|o os IH]; intros nracks ns ns' its H; simpl in H.
  - inv H. constructor.
  - destruct (balance_rack nracks ns o) as [[ns1 i1]|] eqn:A; [|discriminate].
    destruct (balance_racks_list nracks ns1 os) as [[ns2 i2]|] eqn:B; [|discriminate]. inv H.
    apply loud_app; [|eapply IH; eauto].
    unfold balance_rack in A. destruct (length (rack_node_ids ns (rb_rack o)) <=? 1)%nat.
    + destruct (rb_steps o); [|discriminate]. inv A. constructor.
    + eapply rack_loop_loud; eauto.
Qed.

Lemma round_rack : forall st o st' its,
  round false st o = Some (st', its) -> wf (nodes st) -> RI st ->
  wf (nodes st') /\ loud its /\ RI st'.
Proof.
  intros st o st' its H Hwf Hri. unfold round in H.
  destruct (dedup_phase false st (ro_dedup o)) as [[st1 i1]|] eqn:A; [|discriminate].
  destruct (across_phase (ro_coll o) st1 (ro_across o)) as [[st2 i2]|] eqn:B; [|discriminate].
  destruct (within_phase (ro_coll o) st2 (ro_within o)) as [[st3 i3]|] eqn:C; [|discriminate]. inv H.
  pose proof (dedup_phase_dry _ _ _ _ A) as [A1 _]. subst st1.
  assert (L1 : loud i1).
  { unfold dedup_phase in A. destruct (perm_eqb _ _); [|discriminate].
    destruct (dedup_vids false (nodes st) (ro_dedup o)) as [[ns its0]|] eqn:D; [|discriminate]. inv A.
    eapply dedup_vids_loud; eauto. }
  unfold across_phase in B. destruct (perm_eqb _ _); [|discriminate].
  destruct (across_vids_rack _ _ _ _ _ B Hwf Hri) as [W2 [L2 R2]].
  unfold within_phase in C. destruct (perm_eqb _ _); [|discriminate].
  destruct (within_vids _ _ _ _) as [[ns3 its3]|] eqn:D; [|discriminate]. inv C. simpl.
  apply within_vids_fs in D; auto. destruct D as [W3 [_ [F3 [L3 _]]]].
  split; auto. split.
  - constructor; [reflexivity|]. apply loud_app; [exact L1|]. apply loud_app; auto.
  - intros r. simpl. specialize (R2 r). specialize (F3 r). lia.
Qed.

Lemma rounds_rack : forall os st st' its,
  rounds false st os = Some (st', its) -> wf (nodes st) -> RI st ->
  wf (nodes st') /\ loud its /\ RI st'.
Proof.
  induction os as [|o os IH]; intros st st' its H Hwf Hri; simpl in H.
  - inv H. split; auto. split; [constructor|auto].
  - destruct (round false st o) as [[st1 i1]|] eqn:A; [|discriminate].
    destruct (rounds false st1 os) as [[st2 i2]|] eqn:B; [|discriminate]. inv H.
    destruct (round_rack _ _ _ _ A Hwf Hri) as [W1 [L1 R1]].
    destruct (IH _ _ _ B W1 R1) as [W2 [L2 R2]]. split; auto. split; [apply loud_app; auto|auto].
Qed.

Lemma RI_init : forall ns, RI (init_state ns).
Proof. intros ns r. simpl. rewrite collect_racks_fsum. lia. Qed.

Lemma run_plan_loud : forall ns o st' its,
  run_plan false (init_state ns) o = Some (st', its) -> wf ns -> loud its.
Proof.
  intros ns o st' its H Hwf. unfold run_plan in H.
  destruct (rounds false (init_state ns) (po_rounds o)) as [[st1 i1]|] eqn:A; [|discriminate].
  destruct (rounds_rack _ _ _ _ A Hwf (RI_init ns)) as [W1 [L1 _]].
  destruct (po_racks o) as [rbs|].
  - destruct (balance_racks st1 rbs) as [[st2 i2]|] eqn:B; [|discriminate]. inv H.
    apply loud_app; auto. unfold balance_racks in B. destruct (perm_eqb _ _); [|discriminate].
    destruct (balance_racks_list _ _ _) as [[ns2 its0]|] eqn:C; [|discriminate]. inv B.
    eapply balance_racks_list_loud; eauto.
  - inv H. exact L1.
Qed.

Lemma loud_drops_printed : forall its v s, loud its -> drops_key its v s = printed_norack (events_of its) v s.
Proof.
  induction its as [|i its IH]; intros v s L; [reflexivity|]. inv L.
  unfold drops_key, events_of. simpl. fold (drops_key its v s). fold (events_of its).
  unfold printed_norack. rewrite existsb_app. fold (printed_norack (events_of its) v s).
  rewrite (IH v s H2). f_equal.
  destruct i as [e|e m|v1 s1 src [e|]]; simpl in *.
  - destruct e; simpl in *; try reflexivity; discriminate.
  - destruct e; simpl in *; try reflexivity; discriminate.
  - subst e. simpl. rewrite orb_false_r. reflexivity.
  - contradiction.
Qed.
Lemma loud_no_silent : forall its, loud its -> forall i, In i its -> is_silent_drop i = false.
Proof.
  intros its L i Hin. unfold loud in L. rewrite Forall_forall in L. specialize (L i Hin).
  destruct i as [e|e m|v1 s1 src [e|]]; simpl in *; auto. contradiction.
Qed.

(* ec.balance on the racks collectRacks builds (every snapshot, every oracle): when pickOneRack finds a
   rack, a node is found in it - a picked shard is never abandoned silently - and the picks of (v,s) that
   are abandoned are exactly the printed lines "ec shard v.s at X can not find a destination rack" *)
Theorem plan_drops_are_printed : forall ns o st' its,
  run_plan false (init_state ns) o = Some (st', its) -> wf ns ->
  (forall i, In i its -> is_silent_drop i = false) /\
  (forall v s, drops_key its v s = printed_norack (events_of its) v s).
Proof.
  intros ns o st' its H Hwf. pose proof (run_plan_loud _ _ _ _ H Hwf) as L.
  split; [apply loud_no_silent; exact L|intros; apply loud_drops_printed; exact L].
Qed.

(* ====================== a snapshot-decidable condition without drops ====================== *)
Definition calm (i : item) : Prop :=
  match i with IEvent _ => True | IMove _ m => m_kind m <> KAcross | IDrop _ _ _ _ => False end.

Lemma calm_no_drop : forall its, Forall calm its -> has_drop its = false.
Proof.
  induction its as [|i its IH]; intros H; [reflexivity|]. inv H.
  unfold has_drop. simpl. fold (has_drop its). rewrite (IH H3). destruct i; simpl in *; auto. contradiction.
Qed.

Lemma ceil_div_nonneg : forall n, 0 <= ceil_div total_shards (Z.of_nat n).
Proof.
  intros n. unfold ceil_div, total_shards. destruct (Z.of_nat n =? 0) eqn:E; [lia|].
  apply Z.eqb_neq in E. apply Z.div_pos; lia.
Qed.

Lemma aadd_key_in : forall l k d, In k (map fst (aadd l k d)).
Proof.
  induction l as [|[k0 y] l IH]; intros k d; simpl; [left; reflexivity|].
  destruct (N.eqb_spec k0 k); simpl; [left; auto|right; apply IH].
Qed.
Lemma aadd_keys_mono : forall l k d x, In x (map fst l) -> In x (map fst (aadd l k d)).
Proof.
  induction l as [|[k0 y] l IH]; intros k d x H; simpl in *; [destruct H|].
  destruct (N.eqb_spec k0 k); simpl; destruct H; auto.
Qed.
Lemma collect_racks_key : forall ns n, In n ns -> In (n_rack n) (map fst (collect_racks ns)).
Proof.
  intros ns n Hin. unfold collect_racks.
  assert (G : forall l acc, (In n l \/ In (n_rack n) (map fst acc)) ->
    In (n_rack n) (map fst (fold_left (fun acc n => aadd acc (n_rack n) (n_free n)) l acc))).
  { induction l as [|x l IH]; intros acc H; simpl.
    - destruct H as [[]|H]; exact H.
    - apply IH. destruct H as [[E|H]|H].
      + subst x. right. apply aadd_key_in.
      + left. exact H.
      + right. apply aadd_keys_mono. exact H. }
  apply G. left. exact Hin.
Qed.
Lemma rsum_zero_rack : forall ns r v, (forall n, In n ns -> n_rack n <> r) -> rsum ns r v = 0.
Proof.
  induction ns as [|x ns IH]; intros r v H; simpl; auto.
  rewrite IH by (intros; apply H; right; auto).
  destruct (N.eqb_spec (n_rack x) r); [exfalso; eapply H; [left; reflexivity|auto]|lia].
Qed.
Lemma rsum_zero_vid : forall ns r v, ~ In v (all_vids ns) -> rsum ns r v = 0.
Proof.
  intros ns r v Hv.
  assert (G : forall l, (forall n, In n l -> In n ns) -> rsum l r v = 0).
  { induction l as [|x l IH]; intros Hsub; simpl; auto.
    rewrite IH by (intros; apply Hsub; right; auto).
    assert (F : find x v = 0%N).
    { unfold find. apply find_bits_notin. intros X. apply Hv. unfold all_vids. apply dedup_In.
      apply in_flat_map. exists x. split; [apply Hsub; left; reflexivity|exact X]. }
    rewrite F. change (count 0) with 0. destruct (N.eqb (n_rack x) r); lia. }
  apply G. auto.
Qed.

Definition spread_done (st : state) : Prop :=
  forall r v, rsum (nodes st) r v <= ceil_div total_shards (Z.of_nat (length (racks st))).

Lemma rack_balanced_spec : forall ns, rack_balanced ns = true -> spread_done (init_state ns).
Proof.
  intros ns H r v. simpl. unfold rack_balanced in H. rewrite forallb_forall in H.
  destruct (in_dec N.eq_dec v (all_vids ns)) as [Hv|Hv].
  - specialize (H v Hv). rewrite forallb_forall in H.
    destruct (in_dec N.eq_dec r (map fst (collect_racks ns))) as [Hr|Hr].
    + specialize (H r Hr). apply Z.leb_le in H. rewrite rack_vid_count_rsum in H. exact H.
    + rewrite rsum_zero_rack; [apply ceil_div_nonneg|].
      intros n Hn E. apply Hr. rewrite <- E. apply collect_racks_key. exact Hn.
  - rewrite rsum_zero_vid by auto. apply ceil_div_nonneg.
Qed.

Lemma pick_racks_none : forall ro ns v avg rsc locs picked,
  (forall r, alookup rsc r <= avg) -> pick_racks ns v avg rsc locs ro picked = Some (ns, picked).
Proof.
  induction ro as [|[r cands] ro IH]; intros ns v avg rsc locs picked H; simpl; auto.
  destruct (Z.gtb_spec (alookup rsc r) avg) as [G|G]; [specialize (H r); lia|]. apply IH. exact H.
Qed.

Lemma across_vid_done : forall c st o st' its,
  across_vid c st o = Some (st', its) -> wf (nodes st) -> spread_done st -> st' = st /\ its = [].
Proof.
  intros c st o st' its H Hwf Hd. unfold across_vid in H.
  destruct (perm_eqb _ _); [|discriminate].
  rewrite pick_racks_none in H.
  - destruct (av_moves o) as [|[s ch] ms]; simpl in H; [|discriminate]. inv H. destruct st; auto.
  - intros r. rewrite group_count_rsum by auto. apply Hd.
Qed.

Lemma across_vids_done : forall os c st st' its,
  across_vids c st os = Some (st', its) -> wf (nodes st) -> spread_done st -> st' = st /\ its = [].
Proof.
  induction os as [|o os IH]; intros c st st' its H Hwf Hd; simpl in H.
  - inv H. auto.
  - destruct (across_vid c st o) as [[st1 i1]|] eqn:A; [|discriminate].
    destruct (across_vids c st1 os) as [[st2 i2]|] eqn:B; [|discriminate]. inv H.
    destruct (across_vid_done _ _ _ _ _ A Hwf Hd) as [E1 E2]. subst.
    destruct (IH _ _ _ _ B Hwf Hd) as [E3 E4]. subst. auto.
Qed.

Lemma dedup_shards_calm : forall ss ns locs v keeps ns' its,
  dedup_shards false ns locs v ss keeps = Some (ns', its) -> Forall calm its.
Proof.
  induction ss as [|s ss IH]; intros ns locs v keeps ns' its H; simpl in H.
  - destruct keeps; [|discriminate]. inv H. constructor.
  - destruct (length (holders ns locs v s) <=? 1)%nat; [eapply IH; eauto|].
    destruct keeps as [|k keeps]; [discriminate|].
    destruct (mem k (holders ns locs v s) && _); [|discriminate].
    destruct (dedup_shards false ns locs v ss keeps) as [[ns2 its2]|] eqn:R; [|discriminate]. inv H.
    constructor; [exact I|]. eapply IH; eauto.
Qed.
Lemma dedup_vids_calm : forall os ns ns' its,
  dedup_vids false ns os = Some (ns', its) -> Forall calm its.
Proof.
  induction os as [|o os IH]; intros ns ns' its H; cbn [dedup_vids] in H.
  - inv H. constructor.
  - destruct (dedup_shards false ns _ _ _ _) as [[ns1 i1]|] eqn:A; [|discriminate].
    destruct (dedup_vids false ns1 os) as [[ns2 i2]|] eqn:B; [|discriminate]. inv H.
    apply Forall_app. split; [eapply dedup_shards_calm; eauto|eapply IH; eauto].
Qed.
Lemma rack_loop_calm : forall steps nracks ns ids cnts avg ns' its,
  rack_loop nracks ns ids cnts avg steps = Some (ns', its) -> Forall calm its.
Proof.
  induction steps as [|[e f] rest IH]; intros nracks ns ids cnts avg ns' its H; simpl in H; [discriminate|].
  destruct (valid_ends ns ids e f); [|discriminate].
  assert (Stop : match rest with [] => Some (ns, []) | _ :: _ => None end = Some (ns', its) -> Forall calm its).
  { intros X. destruct rest; [|discriminate]. inv X. constructor. }
  destruct ((alookup cnts f >? avg) && (alookup cnts e + 1 <=? avg) && (0 <? node_free ns e)); [|auto].
  destruct (first_foreign (node_entries ns f) (map e_vid (node_entries ns e))) as [en|]; [|auto].
  destruct (shard_ids (e_bits en)) as [|s ss]; [auto|].
  match type of H with context [rack_loop nracks ?a ids ?b avg rest] =>
    destruct (rack_loop nracks a ids b avg rest) as [[ns2 its2]|] eqn:R; [|discriminate] end.
  inv H. constructor; [simpl; discriminate|]. eapply IH; eauto.
Qed.
Lemma balance_racks_list_calm : forall os nracks ns ns' its,
  balance_racks_list nracks ns os = Some (ns', its) -> Forall calm its.
Proof.
  induction os as [|o os IH]; intros nracks ns ns' its H; simpl in H.
  - inv H. constructor.
  - destruct (balance_rack nracks ns o) as [[ns1 i1]|] eqn:A; [|discriminate].
    destruct (balance_racks_list nracks ns1 os) as [[ns2 i2]|] eqn:B; [|discriminate]. inv H.
    apply Forall_app. split; [|eapply IH; eauto].
    unfold balance_rack in A. destruct (length (rack_node_ids ns (rb_rack o)) <=? 1)%nat.
    + destruct (rb_steps o); [|discriminate]. inv A. constructor.
    + eapply rack_loop_calm; eauto.
Qed.

Lemma round_done : forall st o st' its,
  round false st o = Some (st', its) -> wf (nodes st) -> spread_done st ->
  wf (nodes st') /\ spread_done st' /\ Forall calm its.
Proof.
  intros st o st' its H Hwf Hd. unfold round in H.
  destruct (dedup_phase false st (ro_dedup o)) as [[st1 i1]|] eqn:A; [|discriminate].
  destruct (across_phase (ro_coll o) st1 (ro_across o)) as [[st2 i2]|] eqn:B; [|discriminate].
  destruct (within_phase (ro_coll o) st2 (ro_within o)) as [[st3 i3]|] eqn:C; [|discriminate]. inv H.
  pose proof (dedup_phase_dry _ _ _ _ A) as [A1 _]. subst st1.
  assert (L1 : Forall calm i1).
  { unfold dedup_phase in A. destruct (perm_eqb _ _); [|discriminate].
    destruct (dedup_vids false (nodes st) (ro_dedup o)) as [[ns its0]|] eqn:D; [|discriminate]. inv A.
    eapply dedup_vids_calm; eauto. }
  unfold across_phase in B. destruct (perm_eqb _ _); [|discriminate].
  destruct (across_vids_done _ _ _ _ _ B Hwf Hd) as [E1 E2]. subst st2 i2.
  unfold within_phase in C. destruct (perm_eqb _ _); [|discriminate].
  destruct (within_vids _ _ _ _) as [[ns3 its3]|] eqn:D; [|discriminate]. inv C. simpl.
  apply within_vids_fs in D; auto. destruct D as [W3 [_ [_ [_ [M3 K3]]]]].
  split; auto. split.
  - intros r v. simpl. specialize (M3 r v). specialize (Hd r v). lia.
  - constructor; [exact I|]. apply Forall_app. split; auto. simpl.
    eapply Forall_impl; [|exact K3]. intros i Hi. destruct i; simpl in *; auto. rewrite Hi. discriminate.
Qed.

Lemma rounds_done : forall os st st' its,
  rounds false st os = Some (st', its) -> wf (nodes st) -> spread_done st ->
  wf (nodes st') /\ spread_done st' /\ Forall calm its.
Proof.
  induction os as [|o os IH]; intros st st' its H Hwf Hd; simpl in H.
  - inv H. split; auto.
  - destruct (round false st o) as [[st1 i1]|] eqn:A; [|discriminate].
    destruct (rounds false st1 os) as [[st2 i2]|] eqn:B; [|discriminate]. inv H.
    destruct (round_done _ _ _ _ A Hwf Hd) as [W1 [D1 C1]].
    destruct (IH _ _ _ B W1 D1) as [W2 [D2 C2]]. split; auto. split; auto. apply Forall_app. auto.
Qed.

(* snapshot-decidable: on books where every volume already respects the spread limit on every rack,
   ec.balance abandons nothing (and moves nothing across racks) *)
Theorem plan_balanced_calm : forall ns o st' its,
  run_plan false (init_state ns) o = Some (st', its) -> wf ns -> rack_balanced ns = true ->
  has_drop its = false /\ forall e m, In (IMove e m) its -> m_kind m <> KAcross.
Proof.
  intros ns o st' its H Hwf Hb.
  assert (C : Forall calm its).
  { unfold run_plan in H.
    destruct (rounds false (init_state ns) (po_rounds o)) as [[st1 i1]|] eqn:A; [|discriminate].
    destruct (rounds_done _ _ _ _ A Hwf (rack_balanced_spec _ Hb)) as [W1 [_ C1]].
    destruct (po_racks o) as [rbs|].
    - destruct (balance_racks st1 rbs) as [[st2 i2]|] eqn:B; [|discriminate]. inv H.
      apply Forall_app. split; auto. unfold balance_racks in B. destruct (perm_eqb _ _); [|discriminate].
      destruct (balance_racks_list _ _ _) as [[ns2 its0]|] eqn:D; [|discriminate]. inv B.
      eapply balance_racks_list_calm; eauto.
    - inv H. exact C1. }
  split; [apply calm_no_drop; exact C|].
  intros e m Hin. rewrite Forall_forall in C. apply (C _ Hin).
Qed.

(* everything decidable on the snapshot: well-formed uint32 books without a duplicated shard that
   already respect the spread limit lose nothing and duplicate nothing *)
Theorem plan_conserves_snapshot : forall ns o st' its,
  run_plan false (init_state ns) o = Some (st', its) ->
  wf ns -> bits32 ns = true -> has_dup ns = false -> rack_balanced ns = true ->
  (forall v s, total (nodes st') v s = total ns v s) /\ exactly_once_after ns (nodes st').
Proof.
  intros ns o st' its H Hwf HB HD HR.
  destruct (plan_balanced_calm _ _ _ _ H Hwf HR) as [ND _].
  exact (plan_conserves_partial _ _ _ _ H Hwf (unique_of_snapshot _ HB HD) ND).
Qed.

(* per key, decidable on the snapshot and the PRINTED plan: a shard that is on at most one node and for
   which the plan prints no "can not find a destination rack" line is on exactly as many nodes afterwards *)
Theorem plan_conserves_key_printed : forall ns o st' its,
  run_plan false (init_state ns) o = Some (st', its) -> wf ns ->
  forall v s, dup_key ns v s = false -> printed_norack (events_of its) v s = false ->
    total (nodes st') v s = total ns v s.
Proof.
  intros ns o st' its H Hwf v s HD HP.
  assert (U : (total (nodes (init_state ns)) v s <= 1)%nat).
  { simpl. unfold dup_key in HD. apply Nat.ltb_ge in HD. exact HD. }
  destruct (plan_conserves_key _ _ _ _ H Hwf v s U) as [_ [C _]].
  destruct (plan_drops_are_printed _ _ _ _ H Hwf) as [_ P]. apply C. rewrite P. exact HP.
Qed.

Lemma example_balanced : rack_balanced ex_rack_nodes = true /\ rack_balanced ex_nodes = false.
Proof. split; vm_compute; reflexivity. Qed.
