(* C30: FileHandle.Read (chunk layer from the view cache + dirty overlay) returns the POSIX bytes
   on trigger-free histories, for both buffers. *)
From Coq Require Import List ZArith NArith Bool Lia.
From SW Require Import model.DirtyPages proof.DirtyPagesBase proof.DirtyPagesIntervals proof.DirtyPagesState
                       proof.DirtyPagesMem proof.DirtyPagesTemp.
Import ListNotations.
Local Open Scope Z_scope.

(* ---------- the view cache, when it passes the trigger test, is the current chunk list ---------- *)
Lemma bytes_eq_of_forallb : forall (a b : list N), length a = length b ->
  forallb (fun p => N.eqb (fst p) (snd p)) (combine a b) = true -> a = b.
Proof.
  induction a as [|x a IH]; intros b Hl H; destruct b as [|y b]; simpl in *; try discriminate; auto.
  apply andb_true_iff in H. destruct H as [H1 H2]. apply N.eqb_eq in H1. subst. f_equal. apply IH; auto.
Qed.

Lemma chunk_eqb_eq : forall a b, chunk_eqb a b = true -> a = b.
Proof.
  intros [o1 b1] [o2 b2] H. unfold chunk_eqb in H. cbn [fst snd] in H.
  apply andb_true_iff in H. destruct H as [H H3]. apply andb_true_iff in H. destruct H as [H1 H2].
  apply Z.eqb_eq in H1. apply Z.eqb_eq in H2. subst. f_equal. apply bytes_eq_of_forallb; auto.
  unfold zlen in H2. lia.
Qed.

Lemma chunks_eqb_eq : forall a b, chunks_eqb a b = true -> a = b.
Proof.
  induction a as [|x a IH]; intros b H; destruct b as [|y b]; simpl in *; try discriminate; auto.
  apply andb_true_iff in H. destruct H as [H1 H2]. apply chunk_eqb_eq in H1. subst. f_equal. auto.
Qed.

Lemma cget_live : forall cs p, cget (live_chunks cs) p = cget cs p.
Proof.
  induction cs as [|c cs IH]; intros p; auto. unfold live_chunks in *. cbn [filter cget].
  destruct (0 <? zlen (snd c)) eqn:E.
  - cbn [cget]. rewrite IH. reflexivity.
  - rewrite IH. apply Z.ltb_ge in E. destruct (cget cs p); auto.
    unfold covers. pose proof (zlen_nonneg (snd c)). brefl; reflexivity.
Qed.

Lemma live_in : forall cs c, In c (live_chunks cs) -> In c cs.
Proof. intros cs c H. unfold live_chunks in H. apply filter_In in H. tauto. Qed.

Section AbstractRead.
  Variable m : fmeta.
  Variable dirty : list N -> Z -> list N * Z.
  Variable dc : Z -> option N.          (* the buffered byte at a file offset *)
  Variable f : list N.                  (* the POSIX file *)

  Hypothesis D_len : forall buf so, zlen (fst (dirty buf so)) = zlen buf.
  Hypothesis D_get : forall buf so i, 0 <= i < zlen buf ->
    zget (fst (dirty buf so)) i = match dc (so + i) with Some b => Some b | None => zget buf i end.
  Hypothesis D_stop : forall buf so,
    snd (dirty buf so) = 0 \/ (so < snd (dirty buf so) <= so + zlen buf /\ snd (dirty buf so) <= zlen f).

  Hypothesis M_attr : f_attr m = zlen f.
  Hypothesis M_chunks : forall c, In c (f_chunks m) -> 0 <= fst c /\ fst c + zlen (snd c) <= zlen f.
  Hypothesis M_bytes : forall p, 0 <= p < zlen f ->
    pget f p = match dc p with
               | Some b => b
               | None => match cget (f_chunks m) p with Some b => b | None => 0%N end
               end.
  Hypothesis M_pin : match f_pin m with
                     | Some (cs, fsz) => cs = live_chunks (f_chunks m) /\ fsz = zlen f
                     | None => True
                     end.

  Lemma zlen_zero : forall n, 0 <= n -> zlen (repeat 0%N (Z.to_nat n)) = n.
  Proof. intros. unfold zlen. rewrite repeat_length. lia. Qed.

  Lemma handle_read_posix : forall off len, 0 <= off -> 0 < len ->
    fst (handle_read m dirty off len) = pread f off len.
  Proof.
    intros off len Hoff Hlen. pose proof (zlen_nonneg f) as HA.
    assert (Hfs : file_size (f_attr m) (f_chunks m) = zlen f).
    { rewrite M_attr. apply file_size_attr; auto. intros c Hc. apply M_chunks; auto. }
    unfold handle_read, read_chunks. rewrite Hfs.
    set (zero := repeat 0%N (Z.to_nat len)).
    assert (Hz : zlen zero = len) by (apply zlen_zero; lia).
    destruct (zlen f =? 0) eqn:E0.
    - (* empty file *)
      apply Z.eqb_eq in E0.
      destruct (dirty zero off) as [buf' ms] eqn:Ed.
      pose proof (D_stop zero off) as Ds. rewrite Ed in Ds. cbn [snd] in Ds.
      assert (ms = 0) by lia. subst ms. cbn [fst].
      replace (Z.min len (Z.max (0 - off) 0)) with 0 by lia. simpl firstn.
      unfold pread. apply zget_ext. intros p. rewrite zget_slice by lia.
      transitivity (@None N).
      + apply zget_none. change (zlen (@nil N)) with 0. lia.
      + symmetry. destruct ((0 <=? p) && (p <? off + len - off)) eqn:E1; auto.
        apply andb_true_iff in E1. destruct E1 as [E1 _]. apply Z.leb_le in E1. apply zget_none. lia.
    - apply Z.eqb_neq in E0.
      (* whichever way the views were obtained, they are the current chunks and size *)
      set (sel := match f_pin m with
                  | Some (cs, fsz) => (cs, fsz, f_pin m)
                  | None => match live_chunks (f_chunks m) with
                            | [] => ([], zlen f, None)
                            | c :: l => (c :: l, zlen f, Some (c :: l, zlen f))
                            end
                  end).
      assert (Hsel : fst (fst sel) = live_chunks (f_chunks m) /\ snd (fst sel) = zlen f).
      { unfold sel. destruct (f_pin m) as [[cs fsz]|].
        - cbn [fst snd]. tauto.
        - destruct (live_chunks (f_chunks m)); cbn [fst snd]; auto. }
      destruct sel as [[cs fsz] pin]. cbn [fst snd] in Hsel. destruct Hsel as [Hcs Hfsz]. subst cs fsz.
      set (n := Z.max 0 (Z.min len (zlen f - off))).
      set (buf := blit zero 0 (slice (resolve (zlen f) (live_chunks (f_chunks m))) off (off + n))).
      destruct (resolve_spec (zlen f) (live_chunks (f_chunks m)) HA) as [R1 R2].
      { intros c Hc. apply M_chunks. apply live_in. auto. }
      assert (Hbl : zlen buf = len) by (unfold buf; rewrite zlen_blit; auto).
      assert (Hbuf : forall i, 0 <= i < n -> zget buf i =
                Some (match cget (f_chunks m) (off + i) with Some b => b | None => 0%N end)).
      { intros i Hi. unfold buf. change 0%nat with (Z.to_nat 0). rewrite zget_blit by lia.
        rewrite zlen_slice by (unfold n in *; lia). rewrite Hz.
        replace (off + n - off) with n by lia.
        destruct (0 <=? i) eqn:E1; [|apply Z.leb_gt in E1; lia].
        destruct (i <? 0 + n) eqn:E2; [|apply Z.ltb_ge in E2; lia].
        destruct (i <? len) eqn:E3; [|apply Z.ltb_ge in E3; unfold n in *; lia]. cbn [andb].
        rewrite zget_slice by lia. replace (off + n - off) with n by lia. replace (i - 0) with i by lia.
        destruct (0 <=? i) eqn:E4; [|apply Z.leb_gt in E4; lia].
        destruct (i <? n) eqn:E5; [|apply Z.ltb_ge in E5; lia]. cbn [andb].
        rewrite R2 by (unfold n in *; lia). rewrite cget_live. reflexivity. }
      destruct (dirty buf off) as [buf' ms] eqn:Ed. cbn [fst].
      pose proof (D_stop buf off) as Ds. pose proof (D_len buf off) as Dl.
      rewrite Ed in Ds, Dl. cbn [fst snd] in Ds, Dl. rewrite Hbl in Ds, Dl.
      assert (Ht : Z.min len (Z.max (ms - off) n) = n) by (unfold n in *; lia).
      rewrite Ht.
      unfold pread. apply zget_ext. intros i. rewrite zget_firstn, zget_slice by lia.
      replace (off + len - off) with len by lia.
      replace (Z.of_nat (Z.to_nat n)) with n by (unfold n; lia).
      destruct (Z_lt_dec i 0).
      + destruct (i <? n) eqn:E1; destruct (0 <=? i) eqn:E2; try (apply Z.leb_le in E2; lia); cbn [andb]; auto.
        apply zget_none. lia.
      + destruct (0 <=? i) eqn:E2; [|apply Z.leb_gt in E2; lia]. cbn [andb].
        destruct (i <? n) eqn:E1.
        * apply Z.ltb_lt in E1. destruct (i <? len) eqn:E3; [|apply Z.ltb_ge in E3; unfold n in *; lia].
          pose proof (D_get buf off i) as Dg. rewrite Ed in Dg. cbn [fst] in Dg. rewrite Dg by lia.
          rewrite (pget_zget f (off + i)) by (unfold n in *; lia). rewrite M_bytes by (unfold n in *; lia).
          rewrite Hbuf by lia. destruct (dc (off + i)); reflexivity.
        * apply Z.ltb_ge in E1. destruct (i <? len) eqn:E3; auto.
          apply Z.ltb_lt in E3. symmetry. apply zget_none. unfold n in *. lia.
  Qed.
End AbstractRead.

(* ---------- the trigger test on a Read gives the M_pin hypothesis ---------- *)
Lemma pin_of_trigger : forall ends m off len A, trig_at ends m (Read off len) = None ->
  file_size (f_attr m) (f_chunks m) = A ->
  match f_pin m with
  | Some (cs, fsz) => cs = live_chunks (f_chunks m) /\ fsz = A
  | None => True
  end.
Proof.
  intros ends m off len A H Hfs. cbn [trig_at] in H. destruct (f_pin m) as [[cs fsz]|]; auto.
  rewrite Hfs in H.
  destruct (chunks_eqb cs (live_chunks (f_chunks m))) eqn:E1; [|discriminate].
  destruct (fsz =? A) eqn:E2; [|discriminate].
  apply chunks_eqb_eq in E1. apply Z.eqb_eq in E2. auto.
Qed.

(* ---------- in-memory buffer ---------- *)
Lemma m_handle_read : forall s f off len, inv s f -> 0 <= off -> 0 < len ->
  trig_at (m_ends s) (m_meta s) (Read off len) = None ->
  fst (handle_read (m_meta s) (m_dirty_read s) off len) = pread f off len.
Proof.
  intros s f off len [H1 H2 H3 H4 H5 H6] Hoff Hlen Htr.
  assert (Hfs : file_size (f_attr (m_meta s)) (f_chunks (m_meta s)) = zlen f).
  { rewrite H2. apply file_size_attr; auto. intros c Hc. apply H5; auto. }
  apply (handle_read_posix (m_meta s) (m_dirty_read s) (m_cat (m_iv s)) f); auto.
  - intros buf so. unfold m_dirty_read.
    destruct (read_data_at_spec (list N) m_fetch m_valid m_H_len m_H_fetch (m_iv s) buf so H1) as [R1 _]. auto.
  - intros buf so i Hi. unfold m_dirty_read.
    destruct (read_data_at_spec (list N) m_fetch m_valid m_H_len m_H_fetch (m_iv s) buf so H1) as [_ [R2 _]].
    rewrite R2. destruct (0 <=? i) eqn:E1; [|apply Z.leb_gt in E1; lia].
    destruct (i <? zlen buf) eqn:E2; [|apply Z.ltb_ge in E2; lia]. reflexivity.
  - intros buf so. unfold m_dirty_read.
    destruct (read_data_at_spec (list N) m_fetch m_valid m_H_len m_H_fetch (m_iv s) buf so H1) as [_ [_ [R3 [_ R5]]]].
    destruct R5 as [R5|[l [Hl [Hi Hs]]]]; auto. right. destruct (H4 l Hl). lia.
  - eapply pin_of_trigger; eauto.
Qed.

Theorem m_read_is_posix_history : forall limit pre off len post,
  Forall op_ok (pre ++ Read off len :: post) -> 0 <= off -> 0 < len ->
  m_trigger limit (pre ++ Read off len :: post) = None ->
  exists d ms, snd (m_step limit (exec mstate (m_step limit) mstate0 pre) (Read off len))
               = ORead d ms (pread (pfile pre) off len).
Proof.
  intros limit pre off len post Hok Hoff Hlen Htr. unfold m_trigger in Htr.
  apply trigger_app in Htr. destruct Htr as [Hpre Hrest].
  apply Forall_app in Hok. destruct Hok as [Hok _].
  pose proof (m_exec_inv limit pre mstate0 [] inv0 Hok Hpre) as I.
  set (s := exec mstate (m_step limit) mstate0 pre) in *.
  cbn [trigger] in Hrest.
  destruct (trig_at (map (tail_end (list N)) (m_iv s)) (m_meta s) (Read off len)) eqn:E; [discriminate|].
  pose proof (m_handle_read s (pfile pre) off len I Hoff Hlen E) as Hr.
  cbn [m_step]. destruct (m_dirty_read s (repeat 0%N (Z.to_nat len)) off) as [d ms].
  destruct (handle_read (m_meta s) (m_dirty_read s) off len) as [data m']. cbn [fst snd] in *.
  exists d, ms. rewrite Hr. reflexivity.
Qed.

(* ---------- temp-file buffer ---------- *)
Lemma t_handle_read : forall s f off len, tinv_f s f -> 0 <= off -> 0 < len ->
  trig_at (t_ends s) (t_meta s) (Read off len) = None ->
  fst (handle_read (t_meta s) (t_dirty_read s) off len) = pread f off len.
Proof.
  intros s f off len [H1 H0 H2 H3 H4 H5 H6] Hoff Hlen Htr.
  assert (Hfs : file_size (f_attr (t_meta s)) (f_chunks (t_meta s)) = zlen f).
  { rewrite H2. apply file_size_attr; auto. intros c Hc. apply H5; auto. }
  apply (handle_read_posix (t_meta s) (t_dirty_read s) (t_cat (t_file s) (t_iv s)) f); auto.
  - intros buf so. unfold t_dirty_read.
    destruct (read_data_at_spec Z _ _ (t_H_len (t_file s)) (t_H_fetch (t_file s)) (t_iv s) buf so H1) as [R1 _]. auto.
  - intros buf so i Hi. unfold t_dirty_read.
    destruct (read_data_at_spec Z _ _ (t_H_len (t_file s)) (t_H_fetch (t_file s)) (t_iv s) buf so H1) as [_ [R2 _]].
    rewrite R2. destruct (0 <=? i) eqn:E1; [|apply Z.leb_gt in E1; lia].
    destruct (i <? zlen buf) eqn:E2; [|apply Z.ltb_ge in E2; lia]. reflexivity.
  - intros buf so. unfold t_dirty_read.
    destruct (read_data_at_spec Z _ _ (t_H_len (t_file s)) (t_H_fetch (t_file s)) (t_iv s) buf so H1) as [_ [_ [R3 [_ R5]]]].
    destruct R5 as [R5|[l [Hl [Hi Hs]]]]; auto. right. destruct (H4 l Hl). lia.
  - eapply pin_of_trigger; eauto.
Qed.

Theorem t_read_is_posix_history : forall limit pre off len post, 0 < limit ->
  Forall op_ok (pre ++ Read off len :: post) -> 0 <= off -> 0 < len ->
  t_trigger limit (pre ++ Read off len :: post) = None ->
  exists d ms, snd (t_step limit (exec tstate (t_step limit) tstate0 pre) (Read off len))
               = ORead d ms (pread (pfile pre) off len).
Proof.
  intros limit pre off len post Hlim Hok Hoff Hlen Htr. unfold t_trigger in Htr.
  apply trigger_app in Htr. destruct Htr as [Hpre Hrest].
  apply Forall_app in Hok. destruct Hok as [Hok _].
  pose proof (t_exec_inv limit pre tstate0 [] tinv0 Hlim Hok Hpre) as I.
  set (s := exec tstate (t_step limit) tstate0 pre) in *.
  cbn [trigger] in Hrest.
  destruct (trig_at (map (tail_end Z) (t_iv s)) (t_meta s) (Read off len)) eqn:E; [discriminate|].
  pose proof (t_handle_read s (pfile pre) off len I Hoff Hlen E) as Hr.
  cbn [t_step]. destruct (t_dirty_read s (repeat 0%N (Z.to_nat len)) off) as [d ms].
  destruct (handle_read (t_meta s) (t_dirty_read s) off len) as [data m']. cbn [fst snd] in *.
  exists d, ms. rewrite Hr. reflexivity.
Qed.
