(* C19 proofs, part 3: splitPattern and the matcher. *)
From Coq Require Import List NArith Bool String Ascii Arith Lia.
From SW Require Import model.Listing proof.ListingBase.
Import ListNotations.
Local Open Scope string_scope.

(* a string without '*' and '?' *)
Definition literal (s : string) : Prop := find_char star s = None /\ find_char qmark s = None.

Lemma stake_sdrop : forall i s, stake i s ++ sdrop i s = s.
Proof.
  induction i as [|i IH]; intros s; simpl; auto.
  destruct s as [|c s]; simpl; auto. rewrite IH. auto.
Qed.

Lemma find_char_stake : forall c s i, find_char c s = Some i -> find_char c (stake i s) = None.
Proof.
  intros c s. induction s as [|d s IH]; intros i H; simpl in H; [discriminate|].
  destruct (Ascii.eqb d c) eqn:E.
  - inversion H; subst. reflexivity.
  - destruct (find_char c s) as [j|] eqn:Ej; simpl in H; [|discriminate].
    inversion H; subst. simpl. rewrite E. rewrite (IH j); auto.
Qed.

Lemma find_char_stake_none : forall c s i, find_char c s = None -> find_char c (stake i s) = None.
Proof.
  intros c s. induction s as [|d s IH]; intros i H; destruct i; simpl in *; auto.
  destruct (Ascii.eqb d c); [discriminate|].
  destruct (find_char c s) eqn:E; simpl in H; [discriminate|]. rewrite IH; auto.
Qed.

Lemma sdrop_head : forall c s i, find_char c s = Some i -> exists t, sdrop i s = String c t.
Proof.
  intros c s. induction s as [|d s IH]; intros i H; simpl in H; [discriminate|].
  destruct (Ascii.eqb_spec d c) as [E|E].
  - inversion H; subst. simpl. eauto.
  - destruct (find_char c s) as [j|] eqn:Ej; simpl in H; [|discriminate].
    inversion H; subst. simpl. apply IH. auto.
Qed.

(* a literal prefix of the pattern must be a prefix of the name; the rest of the
   pattern is matched against the rest of the name *)
Lemma glob_literal : forall pp rest n, literal pp ->
  glob (pp ++ rest) n = String.prefix pp n && glob rest (sdrop (String.length pp) n).
Proof.
  induction pp as [|c pp IH]; intros rest n [H1 H2].
  - simpl. destruct n; reflexivity.
  - simpl in H1, H2.
    destruct (Ascii.eqb c star) eqn:Es; [discriminate|].
    destruct (Ascii.eqb c qmark) eqn:Eq; [discriminate|].
    assert (Hl : literal pp).
    { split; [destruct (find_char star pp); [discriminate|auto]|destruct (find_char qmark pp); [discriminate|auto]]. }
    change ((String c pp ++ rest)%string) with (String c (pp ++ rest)).
    cbn [glob]. rewrite Es. destruct n as [|d n]; [reflexivity|].
    rewrite Eq. cbn [orb String.prefix String.length sdrop].
    destruct (ascii_dec c d) as [E|E].
    + subst d. rewrite Ascii.eqb_refl. cbn [andb]. apply IH. auto.
    + rewrite (proj2 (Ascii.eqb_neq c d) E). reflexivity.
Qed.

(* outside the static triggers, splitPattern splits the pattern at its first wildcard
   and the part before it is literal *)
Lemma split_pattern_ok : forall pat,
  String.eqb pat "" = false -> trig_nowild pat = false -> trig_qprefix pat = false ->
  let pp := fst (split_pattern pat) in let rest := snd (split_pattern pat) in
  pat = pp ++ rest /\ literal pp /\ rest <> "".
Proof.
  intros pat Hne Hnw Hq. unfold split_pattern, trig_nowild, trig_qprefix, has_char in *.
  rewrite Hne in Hnw. cbn [negb andb] in Hnw.
  destruct (find_char star pat) as [i|] eqn:Es.
  - cbn [fst snd]. split; [symmetry; apply stake_sdrop|]. split.
    + split; [apply find_char_stake; auto|].
      destruct (find_char qmark (stake i pat)); [discriminate|reflexivity].
    + destruct (sdrop_head _ _ _ Es) as [t Ht]. rewrite Ht. discriminate.
  - cbn [negb andb] in Hnw.
    destruct (find_char qmark pat) as [i|] eqn:Eq; [|discriminate].
    cbn [fst snd]. split; [symmetry; apply stake_sdrop|]. split.
    + split; [apply find_char_stake_none; auto|apply find_char_stake; auto].
    + destruct (sdrop_head _ _ _ Eq) as [t Ht]. rewrite Ht. discriminate.
Qed.

Lemma split_pattern_empty : split_pattern "" = ("", "").
Proof. reflexivity. Qed.

Lemma prefix_empty : forall n, String.prefix "" n = true.
Proof. destruct n; reflexivity. Qed.

(* what the implementation tests per name = what the request asks for *)
Lemma match_agrees : forall prefix pat excl n,
  pat_trigger prefix pat = false ->
  String.prefix (eff_prefix prefix pat) n &&
  negb (missed (eff_prefix prefix pat) (snd (split_pattern pat)) excl n) =
  spec_match prefix pat excl n.
Proof.
  intros prefix pat excl n Ht. unfold pat_trigger in Ht.
  apply orb_false_iff in Ht. destruct Ht as [Ht Hb]. apply orb_false_iff in Ht. destruct Ht as [Hnw Hq].
  unfold spec_match, missed, eff_prefix.
  destruct (String.eqb pat "") eqn:Ep.
  - apply String.eqb_eq in Ep. subst pat. cbn [split_pattern find_char fst snd].
    rewrite String.eqb_refl. cbn [negb andb orb]. rewrite orb_false_r. rewrite andb_true_r. reflexivity.
  - unfold trig_both in Hb. rewrite Ep in Hb. cbn [negb] in Hb. rewrite andb_true_r in Hb.
    apply negb_false_iff in Hb. apply String.eqb_eq in Hb. subst prefix.
    destruct (split_pattern_ok pat Ep Hnw Hq) as [Hpat [Hlit Hrest]].
    set (pp := fst (split_pattern pat)) in *. set (rest := snd (split_pattern pat)) in *.
    assert (Epp : (if String.eqb pp "" then "" else pp) = pp).
    { destruct (String.eqb_spec pp ""); congruence. }
    rewrite Epp. rewrite prefix_empty. cbn [orb andb].
    rewrite (proj2 (String.eqb_neq rest "") Hrest). cbn [negb andb].
    replace (glob pat n) with (glob (pp ++ rest) n) by (rewrite <- Hpat; reflexivity).
    rewrite (glob_literal pp rest n Hlit).
    destruct (String.prefix pp n); cbn [andb]; [|reflexivity].
    destruct (negb (String.eqb excl "") && glob excl n); cbn [orb negb andb].
    + rewrite andb_false_r. reflexivity.
    + rewrite negb_involutive, andb_true_r. reflexivity.
Qed.
