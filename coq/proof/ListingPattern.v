(* C19 proofs, part 3: splitPattern and the matcher. *)
From Coq Require Import List NArith Bool String Ascii Arith Lia.
From SW Require Import model.Listing proof.ListingBase.
Import ListNotations.
Local Open Scope string_scope.

(* a string without any character that is special to filepath.Match *)
Definition literal (s : string) : Prop := find_meta s = None.

Lemma stake_sdrop : forall i s, stake i s ++ sdrop i s = s.
Proof.
  induction i as [|i IH]; intros s; simpl; auto.
  destruct s as [|c s]; simpl; auto. rewrite IH. auto.
Qed.

Lemma find_meta_stake : forall s i, find_meta s = Some i -> find_meta (stake i s) = None.
Proof.
  induction s as [|d s IH]; intros i H; simpl in H; [discriminate|].
  destruct (is_meta d) eqn:E.
  - inversion H; subst. reflexivity.
  - destruct (find_meta s) as [j|] eqn:Ej; simpl in H; [|discriminate].
    inversion H; subst. simpl. rewrite E. rewrite (IH j); auto.
Qed.

Lemma sdrop_head : forall s i, find_meta s = Some i -> exists c t, sdrop i s = String c t.
Proof.
  induction s as [|d s IH]; intros i H; simpl in H; [discriminate|].
  destruct (is_meta d) eqn:E.
  - inversion H; subst. simpl. eauto.
  - destruct (find_meta s) as [j|] eqn:Ej; simpl in H; [|discriminate].
    inversion H; subst. simpl. apply IH. auto.
Qed.

(* a literal prefix of the pattern must be a prefix of the name; the rest of the
   pattern is matched against the rest of the name *)
Lemma glob_literal : forall pp rest n, literal pp ->
  glob (pp ++ rest) n = String.prefix pp n && glob rest (sdrop (String.length pp) n).
Proof.
  unfold literal. induction pp as [|c pp IH]; intros rest n H.
  - simpl. destruct n; reflexivity.
  - simpl in H. destruct (is_meta c) eqn:Em; [discriminate|].
    assert (Hl : find_meta pp = None) by (destruct (find_meta pp); [discriminate|auto]).
    unfold is_meta in Em. apply orb_false_iff in Em. destruct Em as [Em _].
    apply orb_false_iff in Em. destruct Em as [Em _]. apply orb_false_iff in Em. destruct Em as [Es Eq].
    change ((String c pp ++ rest)%string) with (String c (pp ++ rest)).
    cbn [glob]. rewrite Es. destruct n as [|d n]; [reflexivity|].
    rewrite Eq. cbn [orb String.prefix String.length sdrop].
    destruct (ascii_dec c d) as [E|E].
    + subst d. rewrite Ascii.eqb_refl. cbn [andb]. apply IH. auto.
    + rewrite (proj2 (Ascii.eqb_neq c d) E). reflexivity.
Qed.

(* splitPattern splits a non-empty pattern into a literal part and a non-empty rest *)
Lemma split_pattern_ok : forall pat, pat <> "" ->
  let pp := fst (split_pattern pat) in let rest := snd (split_pattern pat) in
  pat = pp ++ rest /\ literal pp /\ rest <> "".
Proof.
  intros pat Hne. unfold split_pattern.
  destruct (find_meta pat) as [i|] eqn:Es; cbn [fst snd].
  - split; [symmetry; apply stake_sdrop|]. split; [apply find_meta_stake; auto|].
    destruct (sdrop_head _ _ Es) as [c [t Ht]]. rewrite Ht. discriminate.
  - split; [reflexivity|]. split; [reflexivity|exact Hne].
Qed.

Lemma prefix_empty : forall n, String.prefix "" n = true.
Proof. destruct n; reflexivity. Qed.

(* what the implementation tests per name = what the request asks for, unless a prefix
   and a pattern are given together *)
Lemma match_agrees : forall prefix pat excl n,
  trig_both prefix pat = false ->
  String.prefix (eff_prefix prefix pat) n &&
  negb (missed (eff_prefix prefix pat) (snd (split_pattern pat)) excl n) =
  spec_match prefix pat excl n.
Proof.
  intros prefix pat excl n Hb.
  unfold spec_match, missed, eff_prefix.
  destruct (String.eqb pat "") eqn:Ep.
  - apply String.eqb_eq in Ep. subst pat. cbn [split_pattern find_meta fst snd].
    rewrite String.eqb_refl. cbn [negb andb orb]. rewrite orb_false_r. rewrite andb_true_r. reflexivity.
  - unfold trig_both in Hb. rewrite Ep in Hb. cbn [negb] in Hb. rewrite andb_true_r in Hb.
    apply negb_false_iff in Hb. apply String.eqb_eq in Hb. subst prefix.
    apply String.eqb_neq in Ep.
    destruct (split_pattern_ok pat Ep) as [Hpat [Hlit Hrest]].
    set (pp := fst (split_pattern pat)) in *. set (rest := snd (split_pattern pat)) in *.
    assert (Epp : (if String.eqb pp "" then "" else pp) = pp).
    { destruct (String.eqb_spec pp ""); congruence. }
    rewrite Epp. rewrite prefix_empty. cbn [orb andb].
    rewrite (proj2 (String.eqb_neq rest "") Hrest). cbn [negb andb].
    replace (glob pat n) with (glob (pp ++ rest) n) by (rewrite <- Hpat; reflexivity).
    rewrite (glob_literal pp rest n Hlit).
    destruct (String.prefix pp n); cbn [andb]; [|reflexivity].
    destruct (negb (String.eqb excl "") && glob excl n); cbn [orb negb andb].
    + rewrite andb_false_r. reflexivity.
    + rewrite negb_involutive, andb_true_r. reflexivity.
Qed.

(* ---------- the narrowed trigger ---------- *)
Lemma prefix_trans : forall a b n, String.prefix a b = true -> String.prefix b n = true -> String.prefix a n = true.
Proof.
  induction a as [|c a IH]; intros b n H1 H2; [apply prefix_empty|].
  destruct b as [|c1 b]; [discriminate|]. destruct n as [|c2 n]; [discriminate|].
  cbn [String.prefix] in *.
  destruct (ascii_dec c c1) as [E1|E1]; [|discriminate].
  destruct (ascii_dec c1 c2) as [E2|E2]; [|discriminate].
  subst. destruct (ascii_dec c2 c2) as [_|N]; [|congruence]. eapply IH; eauto.
Qed.

Lemma trig_both_narrow : forall prefix pat, trig_both prefix pat = false -> trig_narrow prefix pat = false.
Proof. intros prefix pat H. unfold trig_narrow. rewrite H. reflexivity. Qed.

Lemma trig_narrow_none : forall prefix, trig_narrow prefix "" = false.
Proof. intros. apply trig_both_narrow. unfold trig_both. cbn. apply andb_false_r. Qed.

(* a pattern with a non-empty literal prefix that extends the requested prefix: the literal
   prefix replaces the requested one without changing the selection *)
Lemma match_agrees_narrow : forall prefix pat excl n,
  trig_narrow prefix pat = false ->
  String.prefix (eff_prefix prefix pat) n &&
  negb (missed (eff_prefix prefix pat) (snd (split_pattern pat)) excl n) =
  spec_match prefix pat excl n.
Proof.
  intros prefix pat excl n Hn.
  destruct (trig_both prefix pat) eqn:Hb; [|apply match_agrees; exact Hb].
  unfold trig_narrow in Hn. rewrite Hb in Hn. cbn [andb] in Hn.
  apply negb_false_iff in Hn. apply andb_true_iff in Hn. destruct Hn as [Hpp Hpre].
  apply negb_true_iff in Hpp.
  unfold trig_both in Hb. apply andb_true_iff in Hb. destruct Hb as [_ Hpat].
  apply negb_true_iff in Hpat. pose proof Hpat as Ep. apply String.eqb_neq in Hpat.
  destruct (split_pattern_ok pat Hpat) as [Hsplit [Hlit Hrest]].
  unfold spec_match, missed, eff_prefix.
  set (pp := fst (split_pattern pat)) in *. set (rest := snd (split_pattern pat)) in *.
  rewrite Hpp, Ep. cbn [orb].
  rewrite (proj2 (String.eqb_neq rest "") Hrest). cbn [negb andb].
  replace (glob pat n) with (glob (pp ++ rest) n) by (rewrite <- Hsplit; reflexivity).
  rewrite (glob_literal pp rest n Hlit).
  destruct (String.prefix pp n) eqn:Epn; cbn [andb].
  - rewrite (prefix_trans prefix pp n Hpre Epn). cbn [andb].
    destruct (negb (String.eqb excl "") && glob excl n); cbn [orb negb andb].
    + rewrite andb_false_r. reflexivity.
    + rewrite negb_involutive, andb_true_r. reflexivity.
  - rewrite andb_false_r. reflexivity.
Qed.
