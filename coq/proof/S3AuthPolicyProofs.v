(* Proofs about the IAM policy part of model/S3Auth.v (C26): GetActions grants at
   most what the document's Allow statements name. *)
From Coq Require Import List NArith Bool String Ascii.
From SW Require Import model.S3Auth proof.S3AuthProofs.
Import ListNotations.
Local Open Scope string_scope.
Local Open Scope list_scope.

(* the possible results of MapToStatementAction *)
Definition sa6 : list string := [ACTION_ADMIN; ACTION_WRITE; ACTION_READ; ACTION_LIST; ACTION_TAGGING; ""].

Lemma map_action_in_sa6 : forall a1, In (map_to_statement_action a1) sa6.
Proof.
  intros a1. unfold map_to_statement_action, sa6.
  destruct (String.eqb a1 "*"); [simpl; auto|].
  destruct (String.eqb a1 "Put*"); [simpl; auto|].
  destruct (String.eqb a1 "Get*"); [simpl; auto|].
  destruct (String.eqb a1 "List*"); [simpl; auto 6|].
  destruct (String.eqb a1 "Tagging*"); simpl; auto 7.
Qed.

Lemma is_s3_action_in : forall a, is_s3_action a = true -> In a s3_actions.
Proof.
  intros a H. unfold is_s3_action in H. apply existsb_exists in H.
  destruct H as [x [Hin He]]. apply String.eqb_eq in He. subst. auto.
Qed.

Ltac split_sa H :=
  unfold sa6 in H; simpl in H;
  destruct H as [H|[H|[H|[H|[H|[H|[]]]]]]]; subst.
Ltac split_a5 H :=
  unfold s3_actions in H; simpl in H;
  destruct H as [H|[H|[H|[H|[H|[]]]]]]; subst.

(* comparing "<action>:<rest>" strings built from the finitely many action names *)
Lemma head_cmp_prefix : forall sa a d b, In sa sa6 -> In a s3_actions ->
  sprefix (sa ++ ":" ++ d)%string (a ++ ":" ++ b)%string = String.eqb sa a && sprefix d b.
Proof. intros sa a d b Hs Ha. split_sa Hs; split_a5 Ha; vm_compute; reflexivity. Qed.

Lemma head_cmp_eqb : forall sa a d b, In sa sa6 -> In a s3_actions ->
  String.eqb (sa ++ ":" ++ d)%string (a ++ ":" ++ b)%string = String.eqb sa a && String.eqb d b.
Proof. intros sa a d b Hs Ha. split_sa Hs; split_a5 Ha; vm_compute; reflexivity. Qed.

Lemma colon_not_action : forall sa a d, In sa sa6 -> In a s3_actions ->
  String.eqb (sa ++ ":" ++ d)%string a = false.
Proof. intros sa a d Hs Ha. split_sa Hs; split_a5 Ha; vm_compute; reflexivity. Qed.

Lemma admin_in_a5 : In ACTION_ADMIN s3_actions.
Proof. simpl. auto. Qed.

(* a bare statement action (resource "*") grants only itself, or everything if it is Admin *)
Lemma grants_bare : forall sa a b, In sa sa6 -> In a s3_actions ->
  grants sa a b = true -> sa = a \/ sa = ACTION_ADMIN.
Proof.
  intros sa a b Hs Ha H. unfold grants in H.
  destruct (String.eqb b ""); simpl negb in H;
  split_sa Hs; split_a5 Ha;
  try (left; reflexivity); try (right; reflexivity);
  vm_compute in H; discriminate.
Qed.

(* a bucket-limited statement action *)
Lemma grants_limited : forall sa a p0 b, In sa sa6 -> In a s3_actions ->
  grants (sa ++ ":" ++ p0)%string a b = true ->
  (sa = a \/ sa = ACTION_ADMIN) /\ wild_match p0 b = true.
Proof.
  intros sa a p0 b Hs Ha H. unfold grants in H.
  rewrite (colon_not_action sa ACTION_ADMIN p0 Hs admin_in_a5) in H.
  rewrite (colon_not_action sa a p0 Hs Ha) in H.
  cbn [orb] in H. apply andb_true_iff in H. destruct H as [_ H].
  rewrite last_is_star_colon in H. unfold wild_match.
  destruct (last_is_star p0) eqn:El.
  - rewrite (drop_last_colon sa p0 (last_is_star_nonempty p0 El)) in H.
    rewrite (head_cmp_prefix sa a _ b Hs Ha) in H.
    rewrite (head_cmp_prefix sa ACTION_ADMIN _ b Hs admin_in_a5) in H.
    apply orb_true_iff in H. destruct H as [H|H]; apply andb_true_iff in H; destruct H as [He Hp];
      apply String.eqb_eq in He; auto.
  - rewrite (head_cmp_eqb sa a p0 b Hs Ha) in H.
    rewrite (head_cmp_eqb sa ACTION_ADMIN p0 b Hs admin_in_a5) in H.
    apply orb_true_iff in H. destruct H as [H|H]; apply andb_true_iff in H; destruct H as [He Hp];
      apply String.eqb_eq in He; auto.
Qed.

(* the statement action that produced sa names the action *)
Lemma map_action_names : forall a1 a, In a s3_actions ->
  (map_to_statement_action a1 = a \/ map_to_statement_action a1 = ACTION_ADMIN) ->
  (String.eqb a1 "*" ||
   (sprefix "Get" a1 && String.eqb a ACTION_READ) ||
   (sprefix "Put" a1 && String.eqb a ACTION_WRITE) ||
   (sprefix "List" a1 && String.eqb a ACTION_LIST) ||
   (sprefix "Tagging" a1 && String.eqb a ACTION_TAGGING)) = true.
Proof.
  intros a1 a Ha H. unfold map_to_statement_action in H.
  destruct (String.eqb a1 "*") eqn:E0; [reflexivity|].
  destruct (String.eqb_spec a1 "Put*").
  { subst a1. destruct H as [H|H]; [subst a; reflexivity|discriminate]. }
  destruct (String.eqb_spec a1 "Get*").
  { subst a1. destruct H as [H|H]; [subst a; reflexivity|discriminate]. }
  destruct (String.eqb_spec a1 "List*").
  { subst a1. destruct H as [H|H]; [subst a; reflexivity|discriminate]. }
  destruct (String.eqb_spec a1 "Tagging*").
  { subst a1. destruct H as [H|H]; [subst a; reflexivity|discriminate]. }
  destruct H as [H|H]; [|discriminate].
  subst a. split_a5 Ha; discriminate.
Qed.

(* one generated action string: where it comes from *)
Lemma action_grant_in : forall r5 act x, In x (action_grant r5 act) ->
  exists a0 a1, split_on ":" act = [a0; a1] /\ String.eqb a0 "s3" = true /\
    ((r5 = "*" /\ x = map_to_statement_action a1) \/
     (exists p0, split_on "/" r5 = [p0; "*"] /\ x = (map_to_statement_action a1 ++ ":" ++ p0)%string)).
Proof.
  intros r5 act x H. unfold action_grant in H.
  destruct (split_on ":" act) as [|a0 [|a1 [|a2 l]]]; try (simpl in H; tauto).
  destruct (String.eqb a0 "s3") eqn:E0; [|simpl in H; tauto].
  exists a0, a1. repeat split; auto.
  destruct (String.eqb_spec r5 "*").
  - left. simpl in H. destruct H as [H|[]]. auto.
  - right. destruct (split_on "/" r5) as [|p0 [|p1 [|p2 l]]]; try (simpl in H; tauto).
    destruct (String.eqb_spec p1 "*"); [|simpl in H; tauto].
    subst p1. simpl in H. destruct H as [H|[]]. exists p0. auto.
Qed.

Lemma resource_grants_in : forall acts res x, In x (resource_grants acts res) ->
  exists r3 r4 r5 act, split_on ":" res = ["arn"; "aws"; "s3"; r3; r4; r5] /\
                       In act acts /\ In x (action_grant r5 act).
Proof.
  intros acts res x H. unfold resource_grants in H.
  destruct (split_on ":" res) as [|r0 [|r1 [|r2 [|r3 [|r4 [|r5 [|r6 l]]]]]]]; try (simpl in H; tauto).
  destruct (String.eqb_spec r0 "arn"); [|simpl in H; tauto].
  destruct (String.eqb_spec r1 "aws"); [|simpl in H; tauto].
  destruct (String.eqb_spec r2 "s3"); [|simpl in H; tauto].
  simpl in H. subst. apply in_flat_map in H. destruct H as [act [Hin Hx]].
  exists r3, r4, r5, act. auto.
Qed.

(* ---------- soundness of GetActions ---------- *)
Theorem get_actions_sound : forall doc action bucket,
  is_s3_action action = true ->
  allows (get_actions doc) action bucket = true -> named doc action bucket = true.
Proof.
  intros doc action bucket Hact H.
  pose proof (is_s3_action_in action Hact) as Ha.
  unfold allows in H. apply existsb_exists in H. destruct H as [x [Hx Hg]].
  unfold get_actions in Hx. apply in_flat_map in Hx. destruct Hx as [st [Hst Hx]].
  destruct (String.eqb (st_effect st) "Allow") eqn:Eeff; [|simpl in Hx; tauto].
  apply in_flat_map in Hx. destruct Hx as [res [Hres Hx]].
  apply resource_grants_in in Hx. destruct Hx as [r3 [r4 [r5 [act [Hsplit [Hact_in Hx]]]]]].
  apply action_grant_in in Hx. destruct Hx as [a0 [a1 [Hasplit [Ha0 Hx]]]].
  unfold named. apply existsb_exists. exists st. split; auto.
  unfold stmt_names. rewrite Eeff. simpl.
  assert (Hnames : forall sa, sa = map_to_statement_action a1 -> (sa = action \/ sa = ACTION_ADMIN) ->
            existsb (fun a => act_names a action) (st_actions st) = true).
  { intros sa Hsa Hor. apply existsb_exists. exists act. split; auto.
    unfold act_names. rewrite Hasplit, Ha0. simpl andb.
    apply map_action_names; auto. subst sa. auto. }
  destruct Hx as [[Hr5 Hxeq]|[p0 [Hp Hxeq]]].
  - subst x r5.
    apply grants_bare in Hg; auto using map_action_in_sa6.
    rewrite (Hnames _ eq_refl Hg). simpl.
    apply existsb_exists. exists res. split; auto.
    unfold res_covers. rewrite Hsplit. reflexivity.
  - subst x.
    apply grants_limited in Hg; auto using map_action_in_sa6. destruct Hg as [Hor Hw].
    rewrite (Hnames _ eq_refl Hor). simpl.
    apply existsb_exists. exists res. split; auto.
    unfold res_covers. rewrite Hsplit, Hp. simpl. exact Hw.
Qed.

Theorem policy_sound : forall doc action bucket,
  is_s3_action action = true ->
  can_do (get_actions doc) action bucket = true -> named doc action bucket = true.
Proof. intros doc action bucket Ha H. rewrite can_do_allows in H. apply get_actions_sound; auto. Qed.

(* PutUserPolicy only adds what the document names to what the user already had *)
Theorem put_user_policy_sound : forall prior doc action bucket,
  is_s3_action action = true ->
  can_do (put_user_policy prior doc) action bucket = true ->
  can_do prior action bucket = true \/ named doc action bucket = true.
Proof.
  intros prior doc action bucket Ha H. unfold put_user_policy in H.
  rewrite can_do_app in H. apply orb_true_iff in H. destruct H as [H|H]; auto.
  right. apply policy_sound; auto.
Qed.

(* statements whose Effect is not exactly "Allow" grant nothing *)
Theorem non_allow_grants_nothing : forall doc,
  Forall (fun st => String.eqb (st_effect st) "Allow" = false) doc -> get_actions doc = [].
Proof.
  intros doc H. induction H as [|st doc Hst _ IH]; simpl; auto.
  unfold get_actions in *. simpl. rewrite Hst. simpl. exact IH.
Qed.

(* declarative reading of [named] *)
Theorem named_iff : forall doc action bucket,
  named doc action bucket = true <->
  exists st, In st doc /\ st_effect st = "Allow" /\
             (exists a, In a (st_actions st) /\ act_names a action = true) /\
             (exists r, In r (st_resources st) /\ res_covers r bucket = true).
Proof.
  intros doc action bucket. unfold named, stmt_names. rewrite existsb_exists. split.
  - intros [st [Hin H]]. apply andb_true_iff in H. destruct H as [H Hr].
    apply andb_true_iff in H. destruct H as [He Ha].
    apply existsb_exists in Ha. apply existsb_exists in Hr. apply String.eqb_eq in He.
    exists st. auto.
  - intros [st [Hin [He [Ha Hr]]]]. exists st. split; auto.
    apply existsb_exists in Ha. apply existsb_exists in Hr. rewrite Ha, Hr.
    rewrite He. reflexivity.
Qed.

(* ---------- histories of PutUserPolicy (the code only ever appends) ---------- *)
Definition put_history (prior : list string) (docs : list (list statement)) : list string :=
  fold_left put_user_policy docs prior.

Theorem put_history_sound : forall docs prior action bucket,
  is_s3_action action = true ->
  can_do (put_history prior docs) action bucket = true ->
  can_do prior action bucket = true \/ exists doc, In doc docs /\ named doc action bucket = true.
Proof.
  induction docs as [|d docs IH]; intros prior action bucket Ha H; simpl in *; auto.
  apply IH in H; auto. destruct H as [H|[doc [Hin Hn]]].
  - apply put_user_policy_sound in H; auto. destruct H as [H|H]; auto.
    right. exists d. auto.
  - right. exists doc. auto.
Qed.

(* nothing is ever revoked: re-putting a narrower document (same PolicyName or not) keeps
   every earlier grant *)
Theorem put_history_never_revokes : forall docs prior action bucket,
  can_do prior action bucket = true -> can_do (put_history prior docs) action bucket = true.
Proof.
  induction docs as [|d docs IH]; intros prior action bucket H; simpl; auto.
  apply IH. unfold put_user_policy. rewrite can_do_app, H. reflexivity.
Qed.

(* "the user's grants are those of the policy document put last" FAILS *)
Definition doc_wide : list statement :=
  [ {| st_effect := "Allow"; st_actions := ["s3:*"]; st_resources := ["arn:aws:s3:::*"] |} ].
Definition doc_narrow : list statement :=
  [ {| st_effect := "Allow"; st_actions := ["s3:Get*"]; st_resources := ["arn:aws:s3:::b1/*"] |} ].

Lemma last_document_bound_refuted :
  can_do (put_history [] [doc_wide; doc_narrow]) ACTION_WRITE "b2" = true /\
  named doc_narrow ACTION_WRITE "b2" = false /\ named doc_wide ACTION_WRITE "b2" = true.
Proof. vm_compute. auto. Qed.

Lemma policy_example :
  let doc := [ {| st_effect := "Allow"; st_actions := ["s3:Get*"; "s3:List*"]; st_resources := ["arn:aws:s3:::b1/*"] |};
               {| st_effect := "Deny"; st_actions := ["s3:*"]; st_resources := ["arn:aws:s3:::*"] |} ] in
  get_actions doc = ["Read:b1"; "List:b1"] /\
  can_do (get_actions doc) ACTION_READ "b1" = true /\ named doc ACTION_READ "b1" = true /\
  can_do (get_actions doc) ACTION_READ "b2" = false /\
  can_do (get_actions doc) ACTION_WRITE "b1" = false /\ named doc ACTION_WRITE "b1" = false.
Proof. vm_compute. repeat split; reflexivity. Qed.
